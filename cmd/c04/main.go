package main

import (
	"bufio"
	"bytes"
	"context"
	"encoding/hex"
	"encoding/json"
	"fmt"
	"io"
	"math/rand"
	"os"
	"os/exec"
	"path/filepath"
	"sort"
	"strconv"
	"strings"
	"time"
	"unicode/utf8"

	frugal "github.com/Workiva/frugal/lib/go"
	"github.com/apache/thrift/lib/go/thrift"

	"verif/ev"
	"verif/wire"
)

func main() {
	if len(os.Args) > 3 && os.Args[1] == "concurrent-child" {
		seed, _ := strconv.ParseInt(os.Args[2], 10, 64)
		n, _ := strconv.Atoi(os.Args[3])
		os.Exit(c04concurrentChild(seed, n))
	}
	os.Exit(runC04(ev.ArgTier(), ev.ArgRest()))
}

// mapCtx is an FContext whose header maps are exactly what the case says, so
// that WriteRequestHeader/WriteResponseHeader can be driven with arbitrary
// maps through the public API.
type mapCtx struct {
	req, resp map[string]string
	added     map[string]string // AddResponseHeader calls made by a reader
}

func (c *mapCtx) CorrelationID() string { return c.req["_cid"] }
func (c *mapCtx) AddRequestHeader(n, v string) frugal.FContext {
	if c.req == nil {
		c.req = map[string]string{}
	}
	c.req[n] = v
	return c
}
func (c *mapCtx) RequestHeader(n string) (string, bool) { v, ok := c.req[n]; return v, ok }
func (c *mapCtx) RequestHeaders() map[string]string     { return copyMap(c.req) }
func (c *mapCtx) AddResponseHeader(n, v string) frugal.FContext {
	if c.added == nil {
		c.added = map[string]string{}
	}
	c.added[n] = v
	return c
}
func (c *mapCtx) ResponseHeader(n string) (string, bool)   { v, ok := c.resp[n]; return v, ok }
func (c *mapCtx) ResponseHeaders() map[string]string       { return copyMap(c.resp) }
func (c *mapCtx) SetTimeout(time.Duration) frugal.FContext { return c }
func (c *mapCtx) Timeout() time.Duration                   { return 5 * time.Second }

func copyMap(m map[string]string) map[string]string {
	o := make(map[string]string, len(m))
	for k, v := range m {
		o[k] = v
	}
	return o
}

func mapsEqual(a, b map[string]string) bool {
	if len(a) != len(b) {
		return false
	}
	for k, v := range a {
		if w, ok := b[k]; !ok || w != v {
			return false
		}
	}
	return true
}

func hexPairs(m map[string]string) [][2]string {
	out := [][2]string{}
	for _, p := range wire.MapToPairs(m) {
		out = append(out, [2]string{hex.EncodeToString([]byte(p.Name)), hex.EncodeToString([]byte(p.Value))})
	}
	return out
}

type c04case struct {
	I       int
	H       map[string]string
	Payload []byte
	Class   string
	UTF8    bool
	GoBytes []byte
}

var c04lens = []int{0, 0, 1, 1, 2, 3, 4, 5, 7, 8, 15, 16, 17, 31, 32, 33, 63, 64, 127, 128, 255, 256, 257, 1023, 4096}

func c04string(rng *rand.Rand, class string, n int) string {
	var b bytes.Buffer
	switch class {
	case "ascii":
		for b.Len() < n {
			b.WriteByte(byte(32 + rng.Intn(95)))
		}
	case "utf8":
		runes := []rune("éßЖ中日本語🙂𝄞\u0000\u007f\u0080߿ࠀ￿")
		for b.Len() < n {
			r := runes[rng.Intn(len(runes))]
			if b.Len()+utf8.RuneLen(r) > n {
				b.WriteByte('x')
				continue
			}
			b.WriteRune(r)
		}
	case "bytes":
		for b.Len() < n {
			b.WriteByte(byte(rng.Intn(256)))
		}
	case "headerlike":
		// bytes that look like length prefixes / version bytes
		pat := [][]byte{{0, 0, 0, 0}, {0, 0, 0, 1}, {0xff, 0xff, 0xff, 0xff}, {0}, {0x80, 0, 0, 0}, {0, 0, 0, 8}}
		for b.Len() < n {
			p := pat[rng.Intn(len(pat))]
			if b.Len()+len(p) > n {
				b.WriteByte(0)
				continue
			}
			b.Write(p)
		}
	}
	return b.String()
}

func c04gen(rng *rand.Rand, i int, big bool) *c04case {
	classes := []string{"ascii", "utf8", "bytes", "headerlike"}
	class := classes[rng.Intn(len(classes))]
	var n int
	switch r := rng.Intn(100); {
	case r < 8:
		n = 0
	case r < 20:
		n = 1
	case r < 70:
		n = 2 + rng.Intn(6)
	case r < 95:
		n = 8 + rng.Intn(40)
	default:
		n = 100 + rng.Intn(900)
	}
	h := map[string]string{}
	for tries := 0; len(h) < n && tries < 20*n+50; tries++ {
		ln := c04lens[rng.Intn(len(c04lens))]
		lv := c04lens[rng.Intn(len(c04lens))]
		if n > 50 { // keep huge maps cheap
			ln, lv = 1+rng.Intn(12), rng.Intn(12)
		}
		if big && rng.Intn(40) == 0 {
			lv = 65536
		}
		if big && rng.Intn(80) == 0 {
			ln = 65536
		}
		name := c04string(rng, class, ln)
		if _, dup := h[name]; dup {
			continue
		}
		h[name] = c04string(rng, class, lv)
	}
	// reserved names appear in real traffic: sometimes include them.  Their
	// values are header values like any other: the peer that wrote them need
	// not be the Go runtime (see reserved.go)
	if rng.Intn(3) == 0 {
		h["_opid"] = c04opid(rng, class)
	}
	if rng.Intn(3) == 0 {
		h["_cid"] = c04cid(rng, class)
	}
	pl := []int{0, 0, 1, 4, 5, 9, 64, 512, 4096}[rng.Intn(9)]
	payload := []byte(c04string(rng, []string{"bytes", "headerlike"}[rng.Intn(2)], pl))
	isUTF8 := true
	for k, v := range h {
		if !utf8.ValidString(k) || !utf8.ValidString(v) {
			isUTF8 = false
		}
	}
	return &c04case{I: i, H: h, Payload: payload, Class: class, UTF8: isUTF8}
}

func bucket(n int) string {
	switch {
	case n == 0:
		return "0"
	case n == 1:
		return "1"
	case n < 8:
		return "2-7"
	case n < 64:
		return "8-63"
	case n < 1024:
		return "64-1023"
	default:
		return ">=1024"
	}
}

// c04goLegs checks every Go direction for one case; returns a failure text
// ("" when all hold) and a short leg name.
func c04goLegs(c *c04case, rng *rand.Rand) (leg, msg string) {
	pf := frugal.NewFProtocolFactory(thrift.NewTBinaryProtocolFactoryConf(nil))
	H := c.H

	// 1. the three writers
	buf := thrift.NewTMemoryBuffer()
	if err := pf.GetProtocol(buf).WriteRequestHeader(&mapCtx{req: H}); err != nil {
		return "WriteRequestHeader", err.Error()
	}
	w1 := append([]byte(nil), buf.Bytes()...)
	buf2 := thrift.NewTMemoryBuffer()
	if err := pf.GetProtocol(buf2).WriteResponseHeader(&mapCtx{resp: H}); err != nil {
		return "WriteResponseHeader", err.Error()
	}
	w2 := append([]byte(nil), buf2.Bytes()...)
	w3 := frugal.VerifMarshalHeaders(H)
	for name, w := range map[string][]byte{"WriteRequestHeader": w1, "WriteResponseHeader": w2, "marshalHeaders": w3} {
		pairs, used, err := wire.DecodeHeaders(w)
		if err != nil {
			return name + "->reference", "written bytes do not parse under the documented layout: " + err.Error()
		}
		if used != len(w) {
			return name + "->reference", fmt.Sprintf("stray bytes: %d written, %d belong to the header block", len(w), used)
		}
		m, dup := wire.PairsToMap(pairs)
		if dup || len(pairs) != len(H) || !mapsEqual(m, H) {
			return name + "->reference", "pairs on the wire differ from the given map"
		}
	}
	c.GoBytes = w1
	// 1b. the built-in context: what it says it holds is what is written
	if len(H) <= 64 {
		ictx := frugal.NewFContext("c")
		for k, v := range H {
			ictx.AddRequestHeader(k, v)
		}
		ib := thrift.NewTMemoryBuffer()
		if err := pf.GetProtocol(ib).WriteRequestHeader(ictx); err != nil {
			return "WriteRequestHeader(FContextImpl)", err.Error()
		}
		pairs, used, err := wire.DecodeHeaders(ib.Bytes())
		if err != nil || used != ib.Len() {
			return "WriteRequestHeader(FContextImpl)->reference", fmt.Sprintf("written bytes do not parse under the documented layout: %v (%d of %d bytes)", err, used, ib.Len())
		}
		if m, dup := wire.PairsToMap(pairs); dup || !mapsEqual(m, ictx.RequestHeaders()) {
			return "WriteRequestHeader(FContextImpl)->reference", "pairs on the wire differ from the context's request headers"
		}
	}

	// 2. reference-written bytes in a shuffled order, and the Go-written ones
	pairs := wire.MapToPairs(H)
	rng.Shuffle(len(pairs), func(i, j int) { pairs[i], pairs[j] = pairs[j], pairs[i] })
	refW := wire.EncodeHeaders(pairs)
	for wname, w := range map[string][]byte{"go": w1, "ref": refW} {
		if l, m := c04readers(pf, wname, w, H, c.Payload); m != "" {
			return l, m
		}
	}

	// 3. addHeadersToFrame = union, payload intact
	extra := map[string]string{}
	for i, n := 0, rng.Intn(4); i < n; i++ {
		extra[c04string(rng, "ascii", 1+rng.Intn(6))] = c04string(rng, "bytes", rng.Intn(20))
	}
	if len(pairs) > 0 && rng.Intn(2) == 0 { // overwrite an existing name
		extra[pairs[0].Name] = "OVERWRITTEN"
	}
	frame := wire.Frame(append(append([]byte(nil), w1...), c.Payload...))
	orig := append([]byte(nil), frame...)
	nf, err := frugal.VerifAddHeadersToFrame(frame, extra)
	if err != nil {
		return "addHeadersToFrame", err.Error()
	}
	if !bytes.Equal(orig, frame) {
		return "addHeadersToFrame", "input frame was modified"
	}
	want := copyMap(H)
	for k, v := range extra {
		want[k] = v
	}
	gm, gp, err := wire.ParseFrame(nf)
	if err != nil {
		return "addHeadersToFrame->reference", err.Error()
	}
	if !mapsEqual(gm, want) {
		return "addHeadersToFrame->reference", "headers are not the union of the frame's and the added ones"
	}
	if !bytes.Equal(gp, c.Payload) {
		return "addHeadersToFrame->reference", "payload changed"
	}
	return "", ""
}

// A decoded header map is a value: it must stay what it was when it was
// returned, whatever is decoded afterwards and whatever the caller does with
// the buffer it decoded from.  The last few maps every reader returned are kept
// and compared again after later cases.
type retainedMap struct {
	leg       string
	got, want map[string]string
}

var retained []retainedMap

func retain(leg string, got, want map[string]string) {
	retained = append(retained, retainedMap{leg, got, copyMap(want)})
	if len(retained) > 24 {
		retained = retained[len(retained)-24:]
	}
}

func recheckRetained() (string, string) {
	for _, r := range retained {
		if !mapsEqual(r.got, r.want) {
			return r.leg + ":map-changed-after-later-reads", "a header map returned earlier no longer equals what was on the wire after later header blocks were decoded (or the receive buffer was reused)"
		}
	}
	return "", ""
}

// wrappedReaders are the stream shapes a header block may be read through:
// the plain memory buffer and the buffering wrappers Apache Thrift offers
// (which answer RemainingBytes for the wrapped transport, not for their own
// buffer).
func wrappedReaders(stream []byte) map[string]thrift.TTransport {
	mem := func() *thrift.TMemoryBuffer {
		return &thrift.TMemoryBuffer{Buffer: bytes.NewBuffer(append([]byte(nil), stream...))}
	}
	framed := thrift.NewTMemoryBuffer()
	fw := thrift.NewTFramedTransportConf(framed, &thrift.TConfiguration{MaxFrameSize: 1 << 30})
	fw.Write(stream)
	fw.Flush(context.Background())
	return map[string]thrift.TTransport{
		"buffered4096": thrift.NewTBufferedTransport(mem(), 4096),
		"buffered64":   thrift.NewTBufferedTransport(mem(), 64),
		"thriftframed": thrift.NewTFramedTransportConf(framed, &thrift.TConfiguration{MaxFrameSize: 1 << 30}),
	}
}

func c04readers(pf *frugal.FProtocolFactory, wname string, w []byte, H map[string]string, payload []byte) (string, string) {
	stream := append(append([]byte(nil), w...), payload...)
	// the public stream readers through buffering wrappers
	for tname, tt := range wrappedReaders(stream) {
		rc := &mapCtx{}
		if err := pf.GetProtocol(tt).ReadResponseHeader(rc); err != nil {
			return wname + "->ReadResponseHeader(" + tname + ")", err.Error()
		}
		wantResp := copyMap(H)
		delete(wantResp, "_opid")
		if rc.added == nil {
			rc.added = map[string]string{}
		}
		if !mapsEqual(rc.added, wantResp) {
			return wname + "->ReadResponseHeader(" + tname + ")", "response headers differ from the map on the wire (minus _opid)"
		}
		rest := make([]byte, len(payload))
		if _, err := io.ReadFull(tt, rest); len(payload) > 0 && (err != nil || !bytes.Equal(rest, payload)) {
			return wname + "->ReadResponseHeader(" + tname + ")", fmt.Sprintf("payload after the headers consumed or altered (%v)", err)
		}
		retain(wname+"->ReadResponseHeader("+tname+")", rc.added, wantResp)
	}
	// stream reader
	r := bytes.NewReader(stream)
	got, err := frugal.VerifReadHeader(r)
	if err != nil {
		return wname + "->readHeader", err.Error()
	}
	if !mapsEqual(got, H) {
		return wname + "->readHeader", "map differs"
	}
	retain(wname+"->readHeader", got, H)
	// the same stream delivered a few bytes per Read (a socket does)
	dr := &dribble{b: append([]byte(nil), stream...), step: 1 + len(stream)%7}
	gotD, err := frugal.VerifReadHeader(dr)
	if err != nil {
		return wname + "->readHeader(short reads)", err.Error()
	}
	if !mapsEqual(gotD, H) || len(dr.b)-dr.off != len(payload) {
		return wname + "->readHeader(short reads)", "map differs or payload not left untouched when the stream delivers a few bytes per Read"
	}
	// the built-in context reused for a second reply: every header of the block
	// just read is what the context reports afterwards, also for names an
	// earlier reply already set
	{
		rctx := frugal.NewFContext("")
		first := map[string]string{}
		for k := range H {
			if k != "_opid" {
				first[k] = "earlier-" + k
			}
		}
		first["only-in-first"] = "kept"
		for i, block := range [][]byte{wire.EncodeHeaders(wire.MapToPairs(first)), w} {
			tb := &thrift.TMemoryBuffer{Buffer: bytes.NewBuffer(append([]byte(nil), block...))}
			if err := pf.GetProtocol(tb).ReadResponseHeader(rctx); err != nil {
				return wname + "->ReadResponseHeader(reused context)", fmt.Sprintf("read %d: %v", i+1, err)
			}
		}
		gotR := rctx.ResponseHeaders()
		wantR := copyMap(first)
		for k, v := range H {
			if k != "_opid" {
				wantR[k] = v
			}
		}
		if !mapsEqual(gotR, wantR) {
			return wname + "->ReadResponseHeader(reused context)", "after a second reply was read into the same context its response headers are not the second reply's (plus the first reply's other names)"
		}
	}
	rest := make([]byte, r.Len())
	r.Read(rest)
	if !bytes.Equal(rest, payload) {
		return wname + "->readHeader", fmt.Sprintf("payload after the headers not left untouched: %d bytes remain, want %d", len(rest), len(payload))
	}
	// ReadResponseHeader through the public API
	tb := &thrift.TMemoryBuffer{Buffer: bytes.NewBuffer(append([]byte(nil), stream...))}
	rc := &mapCtx{}
	if err := pf.GetProtocol(tb).ReadResponseHeader(rc); err != nil {
		return wname + "->ReadResponseHeader", err.Error()
	}
	wantResp := copyMap(H)
	delete(wantResp, "_opid")
	if rc.added == nil {
		rc.added = map[string]string{}
	}
	if !mapsEqual(rc.added, wantResp) {
		return wname + "->ReadResponseHeader", "response headers differ from the map on the wire (minus _opid)"
	}
	if !bytes.Equal(tb.Bytes(), payload) {
		return wname + "->ReadResponseHeader", "payload after the headers consumed or altered"
	}
	// ReadRequestHeader (needs an op id; any op id text: reserved.go)
	if _, ok := H["_opid"]; ok {
		if l, m := c04requestLeg(pf, wname, stream, H, payload); m != "" {
			return l, m
		}
	}
	// frame readers (the caller owns the buffer and reuses it afterwards)
	body := append([]byte(nil), stream...)
	got2, err := frugal.VerifGetHeadersFromFrame(body)
	if err != nil {
		return wname + "->getHeadersFromFrame", err.Error()
	}
	if !mapsEqual(got2, H) {
		return wname + "->getHeadersFromFrame", "map differs"
	}
	for i := range body {
		body[i] = 0xee
	}
	if !mapsEqual(got2, H) {
		return wname + "->getHeadersFromFrame:map-changed-after-later-reads", "the returned map changed when the caller reused its receive buffer"
	}
	if l, m := recheckRetained(); m != "" {
		return l, m
	}
	// NOTE: the unexported, test-only unmarshalFrame is deliberately not a
	// leg: it is unreachable from any public API and assumes a second size
	// prefix in front of the payload (DESIGN.md, C04 notes).
	return "", ""
}

func runC04(tier string, args []string) int {
	run := ev.New("C04", tier, "exploration")
	run.Rule("random header maps (0..1000 entries; name/value lengths 0..65536; ASCII, multi-byte UTF-8, arbitrary bytes, length-prefix look-alikes; the reserved names _opid/_cid present in a third of them with values a foreign peer may have written: canonical decimal, leading zeros, signed, padded, > 2^64-1, empty, opaque text/bytes) followed by a payload; every case is written by the 3 Go writers and the reference writer, parsed by the reference parser and by all Go readers, and (valid UTF-8 cases) written and read by the repository's Python codec; distinct = (entries bucket, max length bucket, byte class, payload bucket)")
	run.Assume("reference codec in /verif/wire written from documentation/protocol.md is correct")
	run.Assume("CPython 3 running lib/python/frugal/util/headers.py unmodified with a stub TProtocolException")
	n := 2000
	if run.Thorough() {
		n = 60000
	}
	rng := run.Rand("c04")
	var cases []*c04case
	legsFailed := map[string]bool{}
	for i := 0; i < n; i++ {
		c := c04gen(rng, i, i%10 == 0)
		run.Eval(1)
		maxl := 0
		for k, v := range c.H {
			if len(k) > maxl {
				maxl = len(k)
			}
			if len(v) > maxl {
				maxl = len(v)
			}
		}
		run.Distinct(fmt.Sprintf("n=%s len=%s class=%s payload=%s", bucket(len(c.H)), bucket(maxl), c.Class, bucket(len(c.Payload))))
		if leg, msg := c04goLegs(c, rng); msg != "" {
			if !legsFailed[leg] {
				legsFailed[leg] = true
				run.Violation("C04:"+leg, msg, map[string]interface{}{"pairs": hexPairs(c.H), "payload": hex.EncodeToString(c.Payload), "leg": leg})
			}
			continue
		}
		if i < 3 {
			run.Sample(map[string]interface{}{"pairs_hex": hexPairs(c.H), "payload_hex": hex.EncodeToString(c.Payload), "go_bytes_hex": hex.EncodeToString(c.GoBytes)})
		}
		cases = append(cases, c)
	}
	// exhaustive small space (Go legs only): every map with <= 3 entries over
	// 13 names x 4 values; quick enumerates the maps with <= 2 entries
	{
		alpha := []string{"a", "b", "\x00"}
		var strs []string
		strs = append(strs, "")
		for _, x := range alpha {
			strs = append(strs, x)
			for _, y := range alpha {
				strs = append(strs, x+y)
			}
		}
		vals := []string{"", "a", "\x00", "\xff"}
		count := 0
		var rec func(start int, cur map[string]string)
		rec = func(start int, cur map[string]string) {
			c := &c04case{I: -1, H: copyMap(cur), Payload: []byte{0, 0, 0, 1, 'x'}, Class: "small"}
			count++
			if leg, msg := c04goLegs(c, rng); msg != "" && !legsFailed[leg] {
				legsFailed[leg] = true
				run.Violation("C04:"+leg, msg, map[string]interface{}{"pairs": hexPairs(c.H), "leg": leg})
			}
			if len(cur) == 3 || (!run.Thorough() && len(cur) == 2) {
				return
			}
			for i := start; i < len(strs); i++ {
				for _, v := range vals {
					cur[strs[i]] = v
					rec(i+1, cur)
					delete(cur, strs[i])
				}
			}
		}
		rec(0, map[string]string{})
		run.Eval(count)
		run.Set("exhaustive_small_space_maps", count)
		run.Exhaustive(false) // the random pool is sampled; only this sub-space is enumerated completely
		run.Distinct("small-space")
	}

	// enumerated reserved-name sub-space (Go legs only), the same at every seed
	{
		rs := c04reservedSpace()
		for _, c := range rs {
			run.Distinct("reserved opid=" + opidShape(c.H["_opid"]))
			if leg, msg := c04goLegs(c, rng); msg != "" && !legsFailed[leg] {
				legsFailed[leg] = true
				run.Violation("C04:"+leg, msg, map[string]interface{}{"pairs": hexPairs(c.H), "payload": hex.EncodeToString(c.Payload), "leg": leg})
			}
		}
		run.Eval(len(rs))
		run.Set("reserved_name_space_maps", len(rs))
	}

	c04concurrent(run)
	c04sessions(run, cases, legsFailed)

	// Python leg
	pyCases := 0
	scratch := ev.ScratchDir()
	in := filepath.Join(scratch, "c04-corpus.jsonl")
	out := filepath.Join(scratch, "c04-py.jsonl")
	f, _ := os.Create(in)
	bw := bufio.NewWriter(f)
	byI := map[int]*c04case{}
	for _, c := range cases {
		if !c.UTF8 {
			continue
		}
		if run.Thorough() && len(c.H) > 200 && c.I%4 != 0 {
			continue
		}
		byI[c.I] = c
		b, _ := json.Marshal(map[string]interface{}{"i": c.I, "pairs": hexPairs(c.H), "gobytes": hex.EncodeToString(c.GoBytes), "payload": hex.EncodeToString(c.Payload)})
		bw.Write(b)
		bw.WriteByte('\n')
	}
	bw.Flush()
	f.Close()
	cmd := exec.Command("python3", filepath.Join(ev.Root(), "py", "headers_check.py"), in, out)
	cmd.Env = append(os.Environ(), "VERIF_REPO="+ev.RepoDir())
	if o, err := cmd.CombinedOutput(); err != nil {
		run.Violation("C04:python-leg-crash", "the Python codec leg did not run to completion: "+err.Error(), string(o))
	} else {
		pf := frugal.NewFProtocolFactory(thrift.NewTBinaryProtocolFactoryConf(nil))
		rf, _ := os.Open(out)
		sc := bufio.NewScanner(rf)
		sc.Buffer(make([]byte, 1<<20), 1<<28)
		for sc.Scan() {
			var res struct {
				I        int         `json:"i"`
				Err      string      `json:"err"`
				Written  string      `json:"py_written"`
				Read     [][2]string `json:"py_read"`
				Rest     string      `json:"py_read_rest"`
				FrameMap [][2]string `json:"py_frame"`
			}
			if err := json.Unmarshal(sc.Bytes(), &res); err != nil {
				continue
			}
			c := byI[res.I]
			if c == nil {
				continue
			}
			pyCases++
			fail := func(leg, msg string) {
				if !legsFailed[leg] {
					legsFailed[leg] = true
					run.Violation("C04:"+leg, msg, map[string]interface{}{"pairs": hexPairs(c.H), "payload": hex.EncodeToString(c.Payload), "python": res})
				}
			}
			if res.Err != "" {
				fail("python", "Python codec raised on a valid case: "+res.Err)
				continue
			}
			want := hexPairs(c.H)
			sort.Slice(res.Read, func(i, j int) bool { return res.Read[i][0] < res.Read[j][0] })
			sort.Slice(res.FrameMap, func(i, j int) bool { return res.FrameMap[i][0] < res.FrameMap[j][0] })
			if fmt.Sprint(res.Read) != fmt.Sprint(want) {
				fail("go->python._read", "Python stream reader yields a different map from Go-written bytes")
			}
			if res.Rest != hex.EncodeToString(c.Payload) {
				fail("go->python._read", "Python stream reader does not leave the payload untouched")
			}
			if fmt.Sprint(res.FrameMap) != fmt.Sprint(want) {
				fail("go->python.decode_from_frame", "Python frame reader yields a different map from Go-written bytes")
			}
			pw, _ := hex.DecodeString(res.Written)
			if l, m := c04readers(pf, "python", pw, c.H, c.Payload); m != "" {
				fail(l, m)
			}
			pairs, used, err := wire.DecodeHeaders(pw)
			if m, _ := wire.PairsToMap(pairs); err != nil || used != len(pw) || !mapsEqual(m, c.H) {
				fail("python->reference", "Python-written bytes do not follow the documented layout")
			}
		}
		rf.Close()
	}
	run.Set("python_cases", pyCases)
	run.Set("request_header_reads_by_opid_shape", requestReadsByOpidShape)
	for _, shape := range []string{"canonical", "leading-zeros", "signed", "padded", "out-of-range", "empty", "opaque-text", "opaque-bytes"} {
		if requestReadsByOpidShape[shape] == 0 && len(legsFailed) == 0 {
			run.Inconclusive("no request header block with an op id of shape " + shape + " went through ReadRequestHeader")
		}
	}
	run.Set("go_readers", strings.Split("readHeader,ReadResponseHeader,ReadRequestHeader,getHeadersFromFrame,addHeadersToFrame", ","))
	if pyCases == 0 {
		run.Inconclusive("python leg evaluated no case")
	}
	return run.Finish()
}
