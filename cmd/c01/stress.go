package main

import (
	"fmt"
	"io"
	"math/rand"
	"strconv"
	"sync"
	"time"

	frugal "github.com/Workiva/frugal/lib/go"
	"github.com/apache/thrift/lib/go/thrift"

	"verif/ev"
	"verif/rig"
	"verif/wire"
)

// stress runs hook-free concurrent callers against adversarial response plans.
type stressCaller struct {
	kind    byte // 'A' answered, 'T' never answered, 'L' answered only after it returned
	copies  int
	opid    uint64
	err     error
	gotOpid string
	gotTok  string
	done    chan struct{}
}

func stress(run *ev.Run, nats *rig.NatsServer) {
	trials := 120
	if run.Thorough() {
		trials = 3000
	}
	rng := run.Rand("c01-stress")
	type trialSpec struct {
		leg  string
		n    int
		seed int64
	}
	specs := make([]trialSpec, trials)
	for i := range specs {
		leg := "adapter"
		if i%4 == 3 {
			leg = "nats"
		}
		ns := []int{1, 2, 3, 4, 8, 16, 32}
		specs[i] = trialSpec{leg, ns[rng.Intn(len(ns))], rng.Int63()}
	}
	var wg sync.WaitGroup
	sem := make(chan struct{}, 8)
	var mu sync.Mutex
	totalCallers, totalFrames := 0, 0
	for i, sp := range specs {
		wg.Add(1)
		sem <- struct{}{}
		go func(i int, sp trialSpec) {
			defer wg.Done()
			defer func() { <-sem }()
			callers, frames, shape, bad, witness := stressTrial(sp.leg, sp.n, sp.seed, nats)
			run.Eval(1)
			mu.Lock()
			totalCallers += callers
			totalFrames += frames
			mu.Unlock()
			if bad != "" {
				if bad[0] == '?' {
					run.Inconclusive(fmt.Sprintf("stress trial %d: %s", i, bad[1:]))
					return
				}
				run.Violation("C01:stress:"+sp.leg+":"+classify(bad), bad, witness)
				return
			}
			run.Distinct("stress " + sp.leg + " " + shape)
		}(i, sp)
	}
	wg.Wait()
	run.Set("stress_trials", trials)
	run.Set("stress_callers", totalCallers)
	run.Set("stress_response_frames_injected", totalFrames)
}

func stressTrial(legName string, n int, seed int64, nats *rig.NatsServer) (callers, frames int, shape, bad string, witness interface{}) {
	rng := rand.New(rand.NewSource(seed))
	var leg rig.MuxLeg
	seen := make(chan uint64, 4*n+8)
	onReq := func(frame []byte) {
		if len(frame) < 4 {
			return
		}
		pairs, _, err := wire.DecodeHeaders(frame[4:])
		if err != nil {
			return
		}
		m, _ := wire.PairsToMap(pairs)
		if op, err := strconv.ParseUint(m["_opid"], 10, 64); err == nil {
			seen <- op
		}
	}
	if legName == "adapter" {
		a := rig.NewAdapterLeg()
		a.St.OnFrame = onReq
		leg = a
	} else {
		nl := rig.NewNatsLeg(nats)
		nl.OnRequest = func(_ string, f []byte) { onReq(f) }
		leg = nl
	}
	tr, err := leg.Open()
	if err != nil {
		return 0, 0, "", "?open: " + err.Error(), nil
	}
	defer leg.Close()

	cs := make([]*stressCaller, n)
	kinds := ""
	for i := range cs {
		c := &stressCaller{done: make(chan struct{})}
		switch r := rng.Intn(10); {
		case r < 6:
			c.kind, c.copies = 'A', 1+rng.Intn(3)
		case r < 8:
			c.kind = 'T'
		default:
			c.kind, c.copies = 'L', 1+rng.Intn(2)
		}
		kinds += string(c.kind) + strconv.Itoa(c.copies)
		cs[i] = c
	}
	shape = fmt.Sprintf("n=%d %s", n, kinds)
	byOp := map[uint64]*stressCaller{}
	var start sync.WaitGroup
	start.Add(1)
	for i, c := range cs {
		ctx := frugal.NewFContext("")
		if c.kind == 'A' {
			ctx.SetTimeout(60 * time.Second)
		} else {
			ctx.SetTimeout(time.Duration(30+rng.Intn(30)) * time.Millisecond)
		}
		c.opid = rig.OpidOf(ctx)
		byOp[c.opid] = c
		go func(i int, c *stressCaller, ctx frugal.FContext) {
			defer close(c.done)
			start.Wait()
			req := wire.BuildFrame(wire.MapToPairs(ctx.RequestHeaders()), []byte("req"))
			rt, err := tr.Request(ctx, req)
			if err != nil {
				c.err = err
				return
			}
			if rt == nil {
				c.err = fmt.Errorf("nil transport, nil error")
				return
			}
			body, _ := io.ReadAll(rt)
			pairs, used, perr := wire.DecodeHeaders(body)
			if perr != nil {
				c.err = fmt.Errorf("unparseable frame returned: %v", perr)
				return
			}
			m, _ := wire.PairsToMap(pairs)
			c.gotOpid, c.gotTok = m["_opid"], string(body[used:])
		}(i, c, ctx)
	}
	start.Done()
	// wait until every request is on the wire (so responses can be permuted freely)
	pendingReq := n
	wd := time.After(20 * time.Second)
	for pendingReq > 0 {
		select {
		case <-seen:
			pendingReq--
		case <-wd:
			return n, 0, shape, "?not every request reached the wire", nil
		}
	}
	// response plan: unknown ids and the copies of answered callers in a random permutation
	type fr struct {
		op  uint64
		tok string
	}
	var plan []fr
	for i, c := range cs {
		if c.kind == 'A' {
			for k := 0; k < c.copies; k++ {
				plan = append(plan, fr{c.opid, fmt.Sprintf("resp:c%d:k%d", i, k)})
			}
		}
	}
	for u := rng.Intn(4); u > 0; u-- {
		uctx := frugal.NewFContext("")
		plan = append(plan, fr{rig.OpidOf(uctx), "resp:unknown"})
	}
	rng.Shuffle(len(plan), func(i, j int) { plan[i], plan[j] = plan[j], plan[i] })
	burst := rng.Intn(2) == 0
	if burst && legName == "adapter" {
		var all []byte
		for _, f := range plan {
			all = append(all, rig.FrameFor(f.op, f.tok)...)
		}
		leg.Inject(0, all) // several frames in one read
	} else {
		for _, f := range plan {
			leg.Inject(f.op, rig.FrameFor(f.op, f.tok))
		}
	}
	frames = len(plan)
	// wait for A callers; T and L callers time out by themselves
	wd = time.After(30 * time.Second)
	for _, c := range cs {
		select {
		case <-c.done:
		case <-wd:
			return n, frames, shape, "?a caller did not return within the watchdog (possible reader stall, see C06)", nil
		}
	}
	// late frames for L callers and repeated frames for completed A callers
	late := 0
	for i, c := range cs {
		if c.kind == 'L' {
			for k := 0; k < c.copies; k++ {
				leg.Inject(c.opid, rig.FrameFor(c.opid, fmt.Sprintf("late:c%d:k%d", i, k)))
				late++
			}
		} else if c.kind == 'A' && rng.Intn(3) == 0 {
			leg.Inject(c.opid, rig.FrameFor(c.opid, fmt.Sprintf("again:c%d", i)))
			late++
		}
	}
	frames += late
	// a fresh request after everything must still be answered with its own frame
	fctx := frugal.NewFContext("")
	fctx.SetTimeout(60 * time.Second)
	fop := rig.OpidOf(fctx)
	fdone := make(chan error, 1)
	var ftok string
	go func() {
		rt, err := tr.Request(fctx, wire.BuildFrame(wire.MapToPairs(fctx.RequestHeaders()), []byte("req")))
		if err == nil && rt != nil {
			body, _ := io.ReadAll(rt)
			_, used, perr := wire.DecodeHeaders(body)
			if perr == nil {
				ftok = string(body[used:])
			}
		}
		fdone <- err
	}()
	wd = time.After(20 * time.Second)
	for got := false; !got; {
		select {
		case op := <-seen:
			got = op == fop
		case <-wd:
			return n, frames, shape, "?fresh request did not reach the wire", nil
		}
	}
	leg.Inject(fop, rig.FrameFor(fop, "resp:fresh"))
	select {
	case err := <-fdone:
		if err != nil || ftok != "resp:fresh" {
			bad = fmt.Sprintf("caller fresh completed with payload %q err=%v, the frame delivered to it was %q", ftok, err, "resp:fresh")
		}
	case <-time.After(30 * time.Second):
		return n, frames, shape, "?fresh request not answered within the watchdog (possible reader stall, see C06)", nil
	}
	// oracle
	outs := []map[string]interface{}{}
	for i, c := range cs {
		o := map[string]interface{}{"caller": i, "kind": string(c.kind), "opid": c.opid, "got_opid": c.gotOpid, "got_payload": c.gotTok}
		if c.err != nil {
			o["err"] = c.err.Error()
		}
		outs = append(outs, o)
		if bad != "" {
			continue
		}
		switch c.kind {
		case 'A':
			if c.err != nil {
				bad = fmt.Sprintf("caller %d was answered with its own frames but returned error %q", i, c.err)
			} else if c.gotOpid != strconv.FormatUint(c.opid, 10) {
				bad = fmt.Sprintf("caller %d (op id %d) completed with a frame whose _opid is %q", i, c.opid, c.gotOpid)
			} else if want := fmt.Sprintf("resp:c%d:k", i); len(c.gotTok) < len(want) || c.gotTok[:len(want)] != want {
				bad = fmt.Sprintf("caller %d completed with payload %q, the frame delivered to it was %q", i, c.gotTok, want+"*")
			}
		default:
			te, ok := c.err.(thrift.TTransportException)
			if !ok || te.TypeId() != frugal.TRANSPORT_EXCEPTION_TIMED_OUT {
				bad = fmt.Sprintf("caller %d was never answered in time but returned err=%v got=%q instead of TIMED_OUT", i, c.err, c.gotTok)
			}
		}
	}
	if bad == "" {
		if sz := frugal.VerifRegistrySize(tr); sz != 0 {
			bad = fmt.Sprintf("registry holds %d registrations after every caller returned", sz)
		}
	}
	if bad != "" {
		witness = map[string]interface{}{"leg": legName, "seed": seed, "callers": outs, "plan": fmt.Sprint(plan), "burst": burst}
	}
	return n, frames, shape, bad, witness
}
