package main

import (
	"fmt"
	"sync"

	"verif/ev"
	"verif/rig"
)

// stress runs hook-free concurrent callers against adversarial response plans.
func stress(run *ev.Run, nats *rig.NatsServer) {
	trials := 300
	if run.Thorough() {
		trials = 4000
	}
	rng := run.Rand("c01-stress")
	type trialSpec struct {
		leg  string
		n    int
		seed int64
	}
	specs := make([]trialSpec, trials)
	for i := range specs {
		leg := "adapter"
		if i%4 == 3 {
			leg = "nats"
		}
		ns := []int{1, 2, 3, 4, 8, 16, 32}
		specs[i] = trialSpec{leg, ns[rng.Intn(len(ns))], rng.Int63()}
	}
	var wg sync.WaitGroup
	sem := make(chan struct{}, 8)
	var mu sync.Mutex
	totalCallers, totalFrames, stalls, cross, decoys, bad := 0, 0, 0, 0, 0, 0
	for i, sp := range specs {
		wg.Add(1)
		sem <- struct{}{}
		go func(i int, sp trialSpec) {
			defer wg.Done()
			defer func() { <-sem }()
			mu.Lock()
			skip := stalls >= 8 || bad >= 4 // a refuted trial costs its watchdogs: a few witnesses are enough
			mu.Unlock()
			if skip {
				return
			}
			r := rig.StressTrial(sp.leg, sp.n, sp.seed, nats, 3)
			run.Eval(1)
			mu.Lock()
			totalCallers += r.Callers
			totalFrames += r.Frames
			cross += r.CrossSubject
			decoys += r.Decoys
			mu.Unlock()
			switch {
			case r.RetryBad != "":
				mu.Lock()
				bad++
				mu.Unlock()
				run.Violation("C01:stress:"+sp.leg+":retry-after-timeout-not-served", r.RetryBad, r.Witness)
			case r.Bad != "":
				mu.Lock()
				bad++
				mu.Unlock()
				run.Violation("C01:stress:"+sp.leg+":"+classify(r.Bad), r.Bad, r.Witness)
			case r.Stall != "":
				mu.Lock()
				stalls++ // C06's verdict
				mu.Unlock()
			case r.Inconclusive != "":
				run.Inconclusive(fmt.Sprintf("stress trial %d: %s", i, r.Inconclusive))
			default:
				run.Distinct("stress " + sp.leg + " " + r.Shape)
			}
		}(i, sp)
	}
	wg.Wait()
	run.Set("stress_trials", trials)
	run.Set("stress_callers", totalCallers)
	run.Set("stress_response_frames_injected", totalFrames)
	run.Set("stress_nats_frames_published_on_another_requests_reply_subject", cross)
	run.Set("stress_frames_with_another_callers_opid_pair_inside_a_header_value", decoys)
	run.Set("stress_trials_cut_short_by_a_reader_stall_(see_C06)", stalls)
}
