package main

import (
	"fmt"
	"sync"
	"sync/atomic"

	frugal "github.com/Workiva/frugal/lib/go"

	"verif/ev"
	"verif/wire"
)

// registryBurst: a burst of registrations (2 .. 2100 at once, the sizes at
// which an implementation may reorganise its table) completes; the last
// request of the burst unregisters at the very moment new requests register
// (all released from one spin barrier, so that they contend for the registry's
// lock); then the response of every new request is executed.  A registration
// exists from the return of Register to the call of Unregister, whatever other
// requests do: each response must arrive on its own channel.  (The porcupine
// histories check the same registry at small sizes and without the barrier.)
func registryBurst(run *ev.Run) {
	iterations, lanes := 1500, 8
	if run.Thorough() {
		iterations, lanes = 20000, 16
	}
	bursts := []int{2, 17, 129, 1100, 1100, 1100, 2100}
	var lost, foreign, executed, trials int64
	var first atomic.Value
	var lw sync.WaitGroup
	for lane := 0; lane < lanes; lane++ {
		lw.Add(1)
		go func(lane int) {
			defer lw.Done()
			maxBurst := 2100
			burstCtx := make([]frugal.FContext, maxBurst)
			for i := range burstCtx {
				burstCtx[i] = frugal.NewFContext("")
			}
			for it := 0; it < iterations; it++ {
				if atomic.LoadInt64(&lost)+atomic.LoadInt64(&foreign) > 0 {
					return
				}
				burst := bursts[(it+lane)%len(bursts)]
				newcomers := 2 + (it+lane)%7
				reg := frugal.VerifNewRegistry()
				for _, c := range burstCtx[:burst] {
					reg.Register(c, make(chan []byte, 1))
				}
				for _, c := range burstCtx[:burst-1] {
					reg.Unregister(c)
				}
				ctxs := make([]frugal.FContext, newcomers)
				chans := make([]chan []byte, newcomers)
				for i := range ctxs {
					ctxs[i] = frugal.NewFContext("")
					chans[i] = make(chan []byte, 1)
				}
				var start int32
				var wg sync.WaitGroup
				wg.Add(newcomers + 1)
				go func() {
					defer wg.Done()
					for atomic.LoadInt32(&start) == 0 {
					}
					reg.Unregister(burstCtx[burst-1])
				}()
				for i := range ctxs {
					go func(i int) {
						defer wg.Done()
						for atomic.LoadInt32(&start) == 0 {
						}
						reg.Register(ctxs[i], chans[i])
					}(i)
				}
				atomic.StoreInt32(&start, 1)
				wg.Wait()
				atomic.AddInt64(&trials, 1)
				for i, c := range ctxs {
					op, _ := c.RequestHeader("_opid")
					tok := fmt.Sprintf("lane%d:it%d:n%d", lane, it, i)
					frame := wire.BuildFrame([]wire.Pair{{Name: "_opid", Value: op}}, []byte(tok))
					reg.Execute(frame[4:])
					atomic.AddInt64(&executed, 1)
					select {
					case got := <-chans[i]:
						_, used, err := wire.DecodeHeaders(got)
						if err != nil || string(got[used:]) != tok {
							atomic.AddInt64(&foreign, 1)
							first.CompareAndSwap(nil, fmt.Sprintf("request %s (op id %s) received a frame that is not its own response", tok, op))
						}
					default:
						atomic.AddInt64(&lost, 1)
						first.CompareAndSwap(nil, fmt.Sprintf("request %s (op id %s) registered while the last of a burst of %d requests unregistered; its response, executed while it was registered, did not arrive on its channel", tok, op, burst))
					}
					reg.Unregister(c)
				}
			}
		}(lane)
	}
	lw.Wait()
	run.Eval(int(trials))
	run.Set("registry_burst_trials_(register_racing_the_last_unregister_of_a_burst)", trials)
	run.Set("registry_burst_responses_executed_while_registered", executed)
	for _, b := range bursts {
		run.Distinct(fmt.Sprintf("registry-burst size=%d", b))
	}
	if lost+foreign > 0 {
		what, _ := first.Load().(string)
		run.Violation("C01:registry-burst:own-response-lost", what, map[string]interface{}{"lost": lost, "foreign": foreign, "executed": executed, "trials": trials})
	}
}
