package main

import (
	"fmt"
	"math/rand"
	"strconv"
	"sync"
	"time"

	frugal "github.com/Workiva/frugal/lib/go"
	"github.com/anishathalye/porcupine"

	"verif/ev"
)

// registryHistories drives the real client registry from several goroutines
// and checks the recorded history for linearizability against a sequential
// map[opid]registration model (partitioned by op id).  Every Register brings
// its own channel with capacity >= the number of dispatches of the history, so
// the workload can never block whatever C06 finds; every dispatched frame has a
// unique id, and after the run the content of each channel says which
// dispatch was delivered to which registration.

type regIn struct {
	Op    string // "reg", "unreg", "disp"
	Key   uint64
	RegID int // reg: the registration brought
	Frame int // disp: unique frame id
}
type regOut struct {
	Err       bool
	Delivered int // disp: registration id that received the frame, 0 = dropped
}

var regModel = porcupine.Model{
	Partition: func(history []porcupine.Operation) [][]porcupine.Operation {
		m := map[uint64][]porcupine.Operation{}
		var keys []uint64
		for _, o := range history {
			k := o.Input.(regIn).Key
			if _, ok := m[k]; !ok {
				keys = append(keys, k)
			}
			m[k] = append(m[k], o)
		}
		out := make([][]porcupine.Operation, 0, len(m))
		for _, k := range keys {
			out = append(out, m[k])
		}
		return out
	},
	Init: func() interface{} { return 0 }, // registration id currently registered for the key, 0 = none
	Step: func(state, input, output interface{}) (bool, interface{}) {
		st := state.(int)
		in := input.(regIn)
		out := output.(regOut)
		switch in.Op {
		case "reg":
			if st != 0 {
				return out.Err, st
			}
			return !out.Err, in.RegID
		case "unreg":
			return true, 0
		default:
			return out.Delivered == st, st
		}
	},
	Equal: func(a, b interface{}) bool { return a.(int) == b.(int) },
	DescribeOperation: func(input, output interface{}) string {
		return fmt.Sprintf("%+v -> %+v", input, output)
	},
}

func registryHistories(run *ev.Run) {
	n := 60
	if run.Thorough() {
		n = 1500
	}
	rng := run.Rand("c01-registry")
	okc, illegal, unknown, ops := 0, 0, 0, 0
	for h := 0; h < n; h++ {
		seed := rng.Int63()
		hist, descr := oneRegistryHistory(seed)
		ops += len(hist)
		run.Eval(1)
		res, _ := porcupine.CheckOperationsVerbose(regModel, hist, 20*time.Second)
		switch res {
		case porcupine.Ok:
			okc++
			run.Distinct("registry-history " + descr)
		case porcupine.Unknown:
			unknown++
			run.Inconclusive("registry history: porcupine timed out")
		default:
			illegal++
			var w []string
			for _, o := range hist {
				w = append(w, fmt.Sprintf("client=%d call=%d ret=%d %+v -> %+v", o.ClientId, o.Call, o.Return, o.Input, o.Output))
			}
			run.Violation("C01:registry-history-not-linearizable", "a concurrent Register/Unregister/dispatch history of the real registry has no sequential explanation (a frame reached a registration that was not the one registered for its op id, or was dropped while registered)", map[string]interface{}{"seed": seed, "history": w})
		}
	}
	run.Set("registry_histories", n)
	run.Set("registry_history_ops", ops)
	run.Set("porcupine_ok", okc)
	run.Set("porcupine_illegal", illegal)
	run.Set("porcupine_unknown", unknown)
}

type opidCtx struct {
	frugal.FContext
}

func oneRegistryHistory(seed int64) ([]porcupine.Operation, string) {
	rng := rand.New(rand.NewSource(seed))
	reg := frugal.VerifNewRegistry()
	keys := 1 + rng.Intn(3)
	gor := 2 + rng.Intn(5)
	perG := 3 + rng.Intn(6)
	total := gor * perG
	base := time.Now()
	var mu sync.Mutex
	var hist []porcupine.Operation
	type regRec struct {
		id int
		ch chan []byte
	}
	var regs []regRec
	nextReg, nextFrame := 0, 0
	var wg sync.WaitGroup
	type planned struct {
		in  regIn
		ch  chan []byte
		ctx frugal.FContext
	}
	plansPerG := make([][]planned, gor)
	for g := 0; g < gor; g++ {
		for i := 0; i < perG; i++ {
			key := uint64(1 + rng.Intn(keys))
			ctx := frugal.NewFContext("x")
			ctx.AddRequestHeader("_opid", strconv.FormatUint(key, 10))
			switch r := rng.Intn(10); {
			case r < 3:
				nextReg++
				ch := make(chan []byte, total+1)
				regs = append(regs, regRec{nextReg, ch})
				plansPerG[g] = append(plansPerG[g], planned{regIn{Op: "reg", Key: key, RegID: nextReg}, ch, ctx})
			case r < 5:
				plansPerG[g] = append(plansPerG[g], planned{regIn{Op: "unreg", Key: key}, nil, ctx})
			default:
				nextFrame++
				plansPerG[g] = append(plansPerG[g], planned{regIn{Op: "disp", Key: key, Frame: nextFrame}, nil, ctx})
			}
		}
	}
	type pending struct {
		idx   int
		frame int
	}
	var disp []pending
	for g := 0; g < gor; g++ {
		wg.Add(1)
		go func(g int) {
			defer wg.Done()
			for _, p := range plansPerG[g] {
				call := time.Since(base).Nanoseconds()
				var out regOut
				switch p.in.Op {
				case "reg":
					out.Err = reg.Register(p.ctx, p.ch) != nil
				case "unreg":
					reg.Unregister(p.ctx)
				default:
					reg.Dispatch(p.in.Key, []byte(strconv.Itoa(p.in.Frame)))
				}
				ret := time.Since(base).Nanoseconds()
				mu.Lock()
				hist = append(hist, porcupine.Operation{ClientId: g, Input: p.in, Call: call, Output: out, Return: ret})
				if p.in.Op == "disp" {
					disp = append(disp, pending{len(hist) - 1, p.in.Frame})
				}
				mu.Unlock()
			}
		}(g)
	}
	wg.Wait()
	// which registration received which frame
	where := map[int]int{}
	for _, r := range regs {
		for {
			select {
			case b := <-r.ch:
				f, _ := strconv.Atoi(string(b))
				where[f] = r.id
				continue
			default:
			}
			break
		}
	}
	for _, d := range disp {
		o := hist[d.idx]
		o.Output = regOut{Delivered: where[d.frame]}
		hist[d.idx] = o
	}
	return hist, fmt.Sprintf("keys=%d goroutines=%d ops=%d", keys, gor, total)
}
