// Command c01 decides property C01 (every RPC gets exactly its own response
// under multiplexing) by runtime monitoring: enforced interleavings on the real
// transports through the verif yield points, hook-free concurrent stress with
// adversarial response plans, and porcupine on the real registry.
package main

import (
	"fmt"
	frugal "github.com/Workiva/frugal/lib/go"
	"os"
	"sort"
	"strconv"
	"strings"
	"sync"
	"sync/atomic"
	"time"
	"verif/wire"

	"verif/ev"
	"verif/rig"
)

type job struct {
	leg   string
	plan  *rig.MuxPlan
	sched []rig.MuxAction
}

func planString(p *rig.MuxPlan) string {
	var b strings.Builder
	for i, f := range p.Fates {
		fmt.Fprintf(&b, "c%d:%s ", i, []string{"answered", "timeout"}[f])
	}
	for j, f := range p.Frames {
		fmt.Fprintf(&b, "f%d->c%d#%d ", j, f.Target, f.Copy)
	}
	return strings.TrimSpace(b.String())
}

// plans enumerates response plans for k callers: every fate combination, 1..maxCopies
// copies for answered callers, 0..maxLate late copies for timed-out callers,
// 0..maxUnknown frames for never-issued op ids.
func plans(k, maxCopies, maxLate, maxUnknown int) []*rig.MuxPlan {
	var out []*rig.MuxPlan
	var rec func(i int, fates []int, copies []int)
	rec = func(i int, fates []int, copies []int) {
		if i == k {
			for u := 0; u <= maxUnknown; u++ {
				p := &rig.MuxPlan{Fates: append([]int(nil), fates...)}
				for c := range copies {
					for n := 0; n < copies[c]; n++ {
						p.Frames = append(p.Frames, rig.MuxFrame{Target: c, Copy: n})
					}
				}
				for n := 0; n < u; n++ {
					p.Frames = append(p.Frames, rig.MuxFrame{Target: -1, Copy: n})
				}
				out = append(out, p)
			}
			return
		}
		for n := 1; n <= maxCopies; n++ {
			rec(i+1, append(fates, rig.FateAnswered), append(copies, n))
		}
		for n := 0; n <= maxLate; n++ {
			rec(i+1, append(fates, rig.FateTimeout), append(copies, n))
		}
	}
	rec(0, nil, nil)
	return out
}

// raceStage runs the hook-free stress under the race detector (diagnostic:
// the property is decided by the behavioural oracle, a race report in the
// library is recorded in evidence).
func raceStage(run *ev.Run) {
	if os.Getenv("VERIF_RACE_STAGE") != "" || !run.Thorough() {
		return
	}
	reports, ok, err := rig.RaceStage(10*time.Minute, "race-stage")
	if !ok {
		run.Set("race_stage", "skipped (no -race twin built)")
		return
	}
	if err != nil {
		run.Set("race_stage", "failed: "+err.Error())
		return
	}
	run.Set("race_reports_distinct", len(reports))
	run.Set("race_reports", reports)
}

func main() {
	if ev.ArgTier() == "race-stage" {
		// child under -race: stress only, no evidence
		os.Setenv("VERIF_OUT", ev.ScratchDir())
		run := ev.New("C01", "quick", "exploration")
		nats, err := rig.StartNats()
		if err != nil {
			os.Exit(0)
		}
		stress(run, nats)
		nats.Stop()
		os.Exit(0)
	}
	ev.Supervise("C01", ev.ArgTier(), "exploration", "the monitor runs in a child process; a panic or runtime fatal error on a goroutine of the library ends every in-flight request and is a violation attributed to the first library frame of the dying goroutine")
	run := ev.New("C01", ev.ArgTier(), "exploration")
	run.Rule("(a) enforced schedules: for k callers sharing one transport, every fate combination (answered / never answered in time), 1..n duplicate responses, late responses and never-issued op ids, ALL interleavings of the hook-delimited steps start/lookup(inject)/deliver/timeout/unregister+return are enumerated (DFS, symmetric copies merged) and enforced on the real adapter and NATS transports; (b) hook-free stress with PRNG response plans and up to 32 concurrent callers; (c) porcupine on the real registry. distinct = distinct (leg, plan, schedule) strings executed + distinct stress plan shapes")
	run.Assume("yield points compiled in with -tags verif do not change behaviour when no goroutine is parked")
	run.Assume("reference frame codec (wire/frame.go)")

	type cfg struct{ k, copies, late, unknown, limit int }
	var cfgs []cfg
	if run.Thorough() {
		cfgs = []cfg{{1, 3, 2, 1, 100000}, {2, 2, 1, 1, 3000}, {2, 3, 2, 1, 400}, {3, 1, 1, 1, 300}, {3, 2, 1, 0, 60}}
	} else {
		cfgs = []cfg{{1, 3, 2, 1, 100000}, {2, 2, 1, 1, 300}, {3, 1, 1, 0, 40}}
	}
	nats, err := rig.StartNats()
	if err != nil {
		run.Inconclusive("embedded nats-server: " + err.Error())
		os.Exit(run.Finish())
	}
	defer nats.Stop()

	rng := run.Rand("c01-sched")
	var jobs []job
	exhaustivePlans, sampledPlans := 0, 0
	for _, c := range cfgs {
		for _, p := range plans(c.k, c.copies, c.late, c.unknown) {
			var scheds [][]rig.MuxAction
			_, complete := p.Enumerate(c.limit, func(s []rig.MuxAction) bool { scheds = append(scheds, s); return true })
			if complete {
				exhaustivePlans++
			} else {
				sampledPlans++
				// the DFS prefix is biased to one corner: replace half by random walks
				seen := map[string]bool{}
				keep := scheds[:len(scheds)/2]
				for _, s := range keep {
					seen[rig.ScheduleString(s)] = true
				}
				for tries := 0; len(keep) < c.limit && tries < 4*c.limit; tries++ {
					s := p.RandomSchedule(rng.Intn)
					if key := rig.ScheduleString(s); !seen[key] {
						seen[key] = true
						keep = append(keep, s)
					}
				}
				scheds = keep
			}
			for _, s := range scheds {
				jobs = append(jobs, job{"adapter", p, s})
			}
			// the NATS leg shares the registry code: run a third of the schedules there
			for i, s := range scheds {
				if i%3 == 0 {
					jobs = append(jobs, job{"nats", p, s})
				}
			}
		}
	}
	run.Set("plans_enumerated_exhaustively", exhaustivePlans)
	run.Set("plans_sampled", sampledPlans)

	var mu sync.Mutex
	var stallsSeen int32
	stalls := 0
	hookEvents := 0
	results := make(chan *rig.MuxResult, 64)
	var wg sync.WaitGroup
	jobc := make(chan job)
	workers := 16
	for w := 0; w < workers; w++ {
		wg.Add(1)
		go func() {
			defer wg.Done()
			for j := range jobc {
				if atomic.LoadInt32(&stallsSeen) >= 8 {
					continue // a stalling reader (C06's verdict) makes every further schedule cost seconds
				}
				var leg rig.MuxLeg
				if j.leg == "adapter" {
					leg = rig.NewAdapterLeg()
				} else {
					leg = rig.NewNatsLeg(nats)
				}
				r := rig.ExecuteSchedule(leg, j.plan, j.sched)
				r.Leg = j.leg + " | " + planString(j.plan)
				if r.Stalled != "" {
					atomic.AddInt32(&stallsSeen, 1)
				}
				results <- r
			}
		}()
	}
	go func() {
		for _, j := range jobs {
			jobc <- j
		}
		close(jobc)
		wg.Wait()
		close(results)
	}()
	sampled := 0
	for r := range results {
		run.Eval(1)
		mu.Lock()
		hookEvents += r.HookEvents
		mu.Unlock()
		key := r.Leg + " || " + r.Schedule
		switch {
		case r.CorrelationKO != "":
			legName := strings.SplitN(r.Leg, " ", 2)[0]
			run.Violation("C01:schedule:"+legName+":"+classify(r.CorrelationKO), r.CorrelationKO, r)
		case r.Stalled != "":
			stalls++ // head-of-line blocking is property C06's verdict; the schedule could not be completed
		case r.Inconclusive != "":
			run.Inconclusive(key + ": " + r.Inconclusive)
		default:
			run.Distinct(key)
			if sampled < 3 && len(r.Outcomes) > 1 {
				sampled++
				run.Sample(map[string]interface{}{"leg_and_plan": r.Leg, "schedule": r.Schedule, "outcomes": r.Outcomes, "expected_payloads": r.Expect, "registry_size_at_end": r.RegistrySize})
			}
		}
	}
	run.Set("schedules_planned", len(jobs))
	run.Set("schedules_cut_short_by_a_reader_stall_(see_C06)", stalls)
	run.Set("hook_events_observed", hookEvents)

	// (d) responses delivered before the caller began to wait
	early, earlyBad := 0, 0
	for _, legName := range []string{"adapter", "nats"} {
		for _, n := range []int{1, 2, 5} {
			for copies := 1; copies <= 2; copies++ {
				if earlyBad >= 2 {
					continue
				}
				var leg rig.MuxLeg
				if legName == "adapter" {
					leg = rig.NewAdapterLeg()
				} else {
					leg = rig.NewNatsLeg(nats)
				}
				r := rig.EarlyResponseTrial(leg, n, copies)
				run.Eval(1)
				early++
				switch {
				case r.Bad != "":
					earlyBad++
					cls := classify(r.Bad)
					if strings.Contains(r.Bad, "the response was lost") {
						cls = "response-before-wait-lost"
					}
					run.Violation("C01:early-response:"+legName+":"+cls, r.Bad, r.Witness)
				case r.Inconclusive != "":
					run.Inconclusive("early-response trial: " + r.Inconclusive)
				default:
					run.Distinct(fmt.Sprintf("early-response %s n=%d copies=%d", legName, n, copies))
				}
			}
		}
	}
	run.Set("early_response_trials_(delivery_completed_before_the_caller_waited)", early)
	// (e) contexts of every kind carry pairwise different op ids (two requests
	// sharing one cannot both get their own response), responses that arrive the
	// instant the request is written, and a refused duplicate call
	{
		type wrapped struct{ frugal.FContext }
		base := frugal.NewFContext("")
		ids := map[string]string{}
		add := func(how string, c frugal.FContext) {
			op, _ := c.RequestHeader("_opid")
			if prev, dup := ids[op]; dup {
				run.Violation("C01:contexts-share-op-id:"+how, fmt.Sprintf("the context obtained by %s carries op id %s, which the context obtained by %s already carries: two requests in flight with these contexts cannot both receive their own response", how, op, prev), map[string]interface{}{"op_id": op, "first": prev, "second": how})
				return
			}
			ids[op] = how
		}
		add("NewFContext", base)
		add("frugal.Clone(FContextImpl)", frugal.Clone(base))
		add("frugal.Clone(user-defined FContext)", frugal.Clone(wrapped{base}))
		add("frugal.Clone(clone of a user-defined FContext)", frugal.Clone(wrapped{frugal.Clone(wrapped{base})}))
		add("NewFContext (second)", frugal.NewFContext(""))
		run.Eval(len(ids))
		g, per := 16, 4000
		if run.Thorough() {
			g, per = 64, 8000
		}
		pr := rig.PromptReplyTrial(g, per)
		run.Eval(int(pr.Requests))
		run.Set("prompt_reply_requests_(answered_from_inside_the_transport_Flush)", pr.Requests)
		switch {
		case pr.Bad != "":
			cls := "wrong-completion"
			if strings.Contains(pr.Bad, "were lost") {
				cls = "response-lost"
			} else if strings.HasPrefix(pr.Bad, "registry lock deadlock") {
				cls = "registry-lock-deadlock"
			}
			run.Violation("C01:prompt-reply:adapter:"+cls, pr.Bad, pr.Witness)
			if cls == "registry-lock-deadlock" {
				// every further trial would park its callers on the same lock
				run.Set("trials_after_the_prompt_reply_trial", "not run: a registry lock deadlock was established, every further trial would end the same way after its own watchdog")
				os.Exit(run.Finish())
			}
		case pr.Inconclusive != "":
			run.Inconclusive("prompt-reply trial: " + pr.Inconclusive)
		default:
			run.Distinct("prompt-reply adapter")
		}
		for _, legName := range []string{"adapter", "nats"} {
			var leg rig.MuxLeg
			if legName == "adapter" {
				leg = rig.NewAdapterLeg()
			} else {
				leg = rig.NewNatsLeg(nats)
			}
			bad, inc := rig.BeyondUint64Trial(leg, 4)
			run.Eval(1)
			switch {
			case bad != "":
				run.Violation("C01:op-id-beyond-uint64-delivered:"+legName, bad, nil)
			case inc != "":
				run.Inconclusive("beyond-uint64 trial: " + inc)
			default:
				run.Distinct("beyond-uint64 " + legName)
			}
		}
		for _, legName := range []string{"adapter", "nats"} {
			seen := make(chan uint64, 16)
			onReq := func(frame []byte) {
				if len(frame) < 4 {
					return
				}
				if pairs, _, err := wire.DecodeHeaders(frame[4:]); err == nil {
					m, _ := wire.PairsToMap(pairs)
					if op, err := strconv.ParseUint(m["_opid"], 10, 64); err == nil {
						select {
						case seen <- op:
						default:
						}
					}
				}
			}
			var leg rig.MuxLeg
			if legName == "adapter" {
				a := rig.NewAdapterLeg()
				a.St.OnFrame = onReq
				leg = a
			} else {
				nl := rig.NewNatsLeg(nats)
				nl.OnRequest = func(_ string, f []byte) { onReq(f) }
				leg = nl
			}
			bad, inc, skipped := rig.RegistryBusyTrial(leg, seen)
			run.Eval(1)
			switch {
			case skipped:
				run.Set("registry_busy_trial", "skipped: the tree under test has no VerifLockRegistry hook")
			case bad != "":
				run.Violation("C01:registry-busy:"+legName+":response-lost", bad, nil)
			case inc != "":
				run.Inconclusive("registry-busy trial: " + inc)
			default:
				run.Distinct("registry-busy " + legName)
			}
		}
		for k := 0; k < 3; k++ {
			dr := rig.DuplicateContextTrial(nats)
			run.Eval(1)
			switch {
			case dr.Bad != "":
				run.Violation("C01:duplicate-context-refused:nats:in-flight-request-lost", dr.Bad, map[string]interface{}{"second_call_error": dr.SecondErr})
			case dr.Inconclusive != "":
				run.Inconclusive("duplicate-context trial: " + dr.Inconclusive)
			default:
				run.Distinct("duplicate-context nats")
			}
			if dr.Bad != "" {
				break
			}
		}
	}
	registryBurst(run)
	stress(run, nats)
	registryHistories(run)
	raceStage(run)
	os.Exit(run.Finish())
}

func classify(msg string) string {
	switch {
	case strings.Contains(msg, "closed itself"):
		return "transport-closed-itself"
	case strings.Contains(msg, "_opid is"):
		return "foreign-opid"
	case strings.Contains(msg, "completed with payload"):
		return "wrong-frame"
	case strings.Contains(msg, "instead of TIMED_OUT"):
		return "unanswered-not-timed-out"
	case strings.Contains(msg, "registry holds"):
		return "registry-leak"
	case strings.Contains(msg, "returned error"):
		return "answered-but-error"
	case strings.Contains(msg, "lookup found"):
		return "lookup-mismatch"
	case strings.Contains(msg, "never returned"):
		return "never-returned"
	}
	return "other"
}

func sortedKeys(m map[string]int) []string {
	var ks []string
	for k := range m {
		ks = append(ks, k)
	}
	sort.Strings(ks)
	return ks
}
