package main

import (
	"fmt"
	"math/rand"
	"os"
	"os/exec"
	"path/filepath"
	"strings"

	"verif/emit"
	"verif/ev"
	"verif/idl"
)

// gobuild: emit Go for n programs into one harness module and type-check it.
func gobuild(n int, cfg idl.Config) {
	h, err := emit.NewHarness("gobuild")
	if err != nil {
		panic(err)
	}
	feats := map[string][]string{}
	for i := 0; i < n; i++ {
		rng := rand.New(rand.NewSource(int64(i) + 1000*ev.Seed()))
		p := idl.Generate(rng, cfg)
		dir := filepath.Join(ev.ScratchDir(), fmt.Sprintf("src%d", i))
		idl.WriteProgram(p, dir, idl.DefaultStyle())
		sub := fmt.Sprintf("p%d", i)
		feats[sub] = p.FeatureList()
		r := h.Gen(sub, dir, p.Root().FileName(), "")
		if r.ExitCode != 0 {
			fmt.Printf("--- p%d frugal failed: %s\n", i, strings.TrimSpace(r.Stdout+r.Stderr))
		}
	}
	cmd := exec.Command("go", "build", "./gen/...")
	cmd.Dir = h.Dir
	cmd.Env = append(os.Environ(), "GOFLAGS=-mod=mod", "GOPROXY=off", "GOSUMDB=off", "GOTOOLCHAIN=local")
	out, err := cmd.CombinedOutput()
	fmt.Printf("go build: err=%v\n%s\n", err, out)
	cmd = exec.Command("go", "vet", "./gen/...")
	cmd.Dir = h.Dir
	cmd.Env = append(os.Environ(), "GOFLAGS=-mod=mod", "GOPROXY=off", "GOSUMDB=off", "GOTOOLCHAIN=local")
	out, err = cmd.CombinedOutput()
	s := string(out)
	if len(s) > 4000 {
		s = s[:4000]
	}
	fmt.Printf("go vet: err=%v\n%s\n", err, s)
}
