// Command idlprobe is a development aid: renders N random programs and runs
// the compiler on them for one target, printing failures by feature.
package main

import (
	"fmt"
	"math/rand"
	"os"
	"path/filepath"
	"strconv"
	"strings"
	"time"

	"verif/emit"
	"verif/ev"
	"verif/idl"
)

func main() {
	n, _ := strconv.Atoi(os.Args[1])
	target := os.Args[2]
	if target == "gobuild" {
		gobuild(n, idl.CoreConfig())
		return
	}
	bin, err := emit.FrugalBin()
	if err != nil {
		fmt.Println(err)
		os.Exit(1)
	}
	cfg := idl.CoreConfig()
	fails := map[string]int{}
	for i := 0; i < n; i++ {
		rng := rand.New(rand.NewSource(int64(i) + 1000*ev.Seed()))
		p := idl.Generate(rng, cfg)
		dir := filepath.Join(ev.ScratchDir(), fmt.Sprintf("p%d", i))
		st := idl.DefaultStyle()
		if len(os.Args) > 3 && os.Args[3] == "randstyle" {
			st = idl.RandomStyle(rng)
		}
		root, _ := idl.WriteProgram(p, dir, st)
		r := emit.Run(bin, dir, 30*time.Second, "-gen", target, "-r", "-out", filepath.Join(dir, "out"), root)
		if r.ExitCode != 0 {
			msg := strings.TrimSpace(r.Stdout + r.Stderr)
			if len(msg) > 300 {
				msg = msg[:300]
			}
			fails[msg]++
			if fails[msg] == 1 {
				fmt.Printf("--- program %d FAILED (%s): %s\n    features: %v\n    dir: %s\n", i, st, msg, p.FeatureList(), dir)
			}
		}
	}
	fmt.Println("failures:", len(fails))
	for m, c := range fails {
		fmt.Println(c, "x", m)
	}
	if len(os.Args) > 4 {
		return
	}
}
