package main

import (
	"bytes"
	"encoding/json"
	"fmt"
	"os"
	"os/exec"
	"path/filepath"
	"regexp"
	"sort"
	"strings"
	"sync"
	"time"

	"verif/ev"
)

// ---------------------------------------------------------------------------
// crash signatures (both sides)

var crashPatterns = []struct {
	kind string
	re   *regexp.Regexp
}{
	{"stack-overflow", regexp.MustCompile(`stack overflow|goroutine stack exceeds`)},
	{"nil-pointer", regexp.MustCompile(`nil pointer|invalid memory address`)},
	{"index-out-of-range", regexp.MustCompile(`index out of range|slice bounds out of range`)},
	{"interface-conversion", regexp.MustCompile(`interface conversion`)},
	{"runtime-error", regexp.MustCompile(`runtime error`)},
	{"out-of-memory", regexp.MustCompile(`out of memory|cannot allocate memory`)},
	{"fatal-error", regexp.MustCompile(`fatal error`)},
	{"goroutine-dump", regexp.MustCompile(`goroutine \d+ \[`)},
}

// crashKind returns the kind of Go runtime failure visible in the output or
// the exit status of a compiler run ("" = none).  A diagnostic produced from
// an explicit panic("...") recovered by main.go is not a crash.
func crashKind(out string, exit int, signaled bool) string {
	for _, p := range crashPatterns {
		if p.re.MatchString(out) {
			return p.kind
		}
	}
	if signaled {
		return "killed-by-signal"
	}
	if exit == 2 {
		return "exit-status-2"
	}
	return ""
}

var frameRe = regexp.MustCompile(`github\.com/Workiva/frugal/compiler[^\s(]*\.[A-Za-z_(*).]+`)

// topFrame extracts the first compiler frame of a goroutine dump.
func topFrame(out string) string {
	return frameRe.FindString(out)
}

// ---------------------------------------------------------------------------
// Dart: lexical well-formedness only (no Dart toolchain in the sandbox)

// dartLexCheck verifies that brackets are balanced and that strings and
// comments terminate, with Dart's lexical rules: // and nestable /* */
// comments, '..' ".." ”'..”' """..""" strings, r-prefixed raw strings,
// backslash escapes and ${ } interpolations (which nest code in strings).
func dartLexCheck(src []byte) error {
	type frame struct {
		kind  byte // '(' '[' '{' bracket; 's' string
		quote string
		raw   bool
		line  int
	}
	var st []frame
	line := 1
	i := 0
	n := len(src)
	inString := func() *frame {
		if len(st) > 0 && st[len(st)-1].kind == 's' {
			return &st[len(st)-1]
		}
		return nil
	}
	for i < n {
		c := src[i]
		if c == '\n' {
			line++
		}
		if f := inString(); f != nil {
			switch {
			case !f.raw && c == '\\':
				i += 2
				continue
			case bytes.HasPrefix(src[i:], []byte(f.quote)):
				i += len(f.quote)
				st = st[:len(st)-1]
				continue
			case c == '\n' && len(f.quote) == 1:
				return fmt.Errorf("line %d: single-line string opened on line %d not terminated", line-1, f.line)
			case !f.raw && c == '$' && i+1 < n && src[i+1] == '{':
				st = append(st, frame{kind: '{', line: line})
				i += 2
				continue
			}
			i++
			continue
		}
		switch {
		case c == '/' && i+1 < n && src[i+1] == '/':
			for i < n && src[i] != '\n' {
				i++
			}
			continue
		case c == '/' && i+1 < n && src[i+1] == '*':
			depth, start := 1, line
			i += 2
			for i < n && depth > 0 {
				switch {
				case src[i] == '\n':
					line++
					i++
				case src[i] == '/' && i+1 < n && src[i+1] == '*':
					depth++
					i += 2
				case src[i] == '*' && i+1 < n && src[i+1] == '/':
					depth--
					i += 2
				default:
					i++
				}
			}
			if depth > 0 {
				return fmt.Errorf("line %d: block comment not terminated", start)
			}
			continue
		case c == '\'' || c == '"':
			raw := i > 0 && src[i-1] == 'r' && (i < 2 || !isIdentByte(src[i-2]))
			q := string(c)
			if bytes.HasPrefix(src[i:], []byte{c, c, c}) {
				q = string([]byte{c, c, c})
			}
			st = append(st, frame{kind: 's', quote: q, raw: raw, line: line})
			i += len(q)
			continue
		case c == '(' || c == '[' || c == '{':
			st = append(st, frame{kind: c, line: line})
		case c == ')' || c == ']' || c == '}':
			if len(st) == 0 {
				return fmt.Errorf("line %d: %q closes nothing", line, c)
			}
			top := st[len(st)-1]
			want := map[byte]byte{'(': ')', '[': ']', '{': '}'}[top.kind]
			if want != c {
				return fmt.Errorf("line %d: %q closes %q opened on line %d", line, c, top.kind, top.line)
			}
			st = st[:len(st)-1]
		}
		i++
	}
	if len(st) > 0 {
		top := st[len(st)-1]
		if top.kind == 's' {
			return fmt.Errorf("string opened on line %d not terminated", top.line)
		}
		return fmt.Errorf("%q opened on line %d never closed", top.kind, top.line)
	}
	return nil
}

func isIdentByte(b byte) bool {
	return b == '_' || b == '$' || (b >= '0' && b <= '9') || (b >= 'a' && b <= 'z') || (b >= 'A' && b <= 'Z')
}

// ---------------------------------------------------------------------------
// JSON: loadable + the shape of documentation/json.md

// jsonShapeCheck validates frugal.json: a map of namespace -> {s,c,t} with the
// descriptors of documentation/json.md.  The generator omits empty members
// (omitempty), so an empty struct is the descriptor {}: accepted, counted.
func jsonShapeCheck(b []byte, emptyDescriptors *int) error {
	var top map[string]json.RawMessage
	if err := json.Unmarshal(b, &top); err != nil {
		return fmt.Errorf("not loadable: %v", err)
	}
	for ns, raw := range top {
		var file map[string]json.RawMessage
		if err := json.Unmarshal(raw, &file); err != nil {
			return fmt.Errorf("namespace %s: not an object: %v", ns, err)
		}
		for k, v := range file {
			switch k {
			case "s":
				var svcs map[string]map[string]json.RawMessage
				if err := json.Unmarshal(v, &svcs); err != nil {
					return fmt.Errorf("%s.s: %v", ns, err)
				}
				for sn, svc := range svcs {
					for sk, sv := range svc {
						if sk != "m" {
							return fmt.Errorf("%s.s.%s: unknown member %q", ns, sn, sk)
						}
						var methods map[string]map[string]map[string]json.RawMessage
						if err := json.Unmarshal(sv, &methods); err != nil {
							return fmt.Errorf("%s.s.%s.m: %v", ns, sn, err)
						}
						for mn, m := range methods {
							for mk, fields := range m {
								if mk != "p" && mk != "r" {
									return fmt.Errorf("%s.s.%s.m.%s: unknown member %q", ns, sn, mn, mk)
								}
								for id, f := range fields {
									if err := jsonField(f, emptyDescriptors); err != nil {
										return fmt.Errorf("%s.s.%s.m.%s.%s.%s: %v", ns, sn, mn, mk, id, err)
									}
									if !isInt(id) {
										return fmt.Errorf("%s.s.%s.m.%s.%s: field id %q is not a number", ns, sn, mn, mk, id)
									}
								}
							}
						}
					}
				}
			case "c":
				var scopes map[string]map[string]json.RawMessage
				if err := json.Unmarshal(v, &scopes); err != nil {
					return fmt.Errorf("%s.c: %v", ns, err)
				}
				for sn, sc := range scopes {
					for sk, sv := range sc {
						switch sk {
						case "p":
							var s string
							if err := json.Unmarshal(sv, &s); err != nil {
								return fmt.Errorf("%s.c.%s.p: %v", ns, sn, err)
							}
						case "o":
							var ops map[string]json.RawMessage
							if err := json.Unmarshal(sv, &ops); err != nil {
								return fmt.Errorf("%s.c.%s.o: %v", ns, sn, err)
							}
							for on, t := range ops {
								if err := jsonType(t, emptyDescriptors); err != nil {
									return fmt.Errorf("%s.c.%s.o.%s: %v", ns, sn, on, err)
								}
							}
						default:
							return fmt.Errorf("%s.c.%s: unknown member %q", ns, sn, sk)
						}
					}
				}
			case "t":
				var types map[string]json.RawMessage
				if err := json.Unmarshal(v, &types); err != nil {
					return fmt.Errorf("%s.t: %v", ns, err)
				}
				for tn, t := range types {
					if err := jsonType(t, emptyDescriptors); err != nil {
						return fmt.Errorf("%s.t.%s: %v", ns, tn, err)
					}
				}
			default:
				return fmt.Errorf("namespace %s: unknown member %q", ns, k)
			}
		}
	}
	return nil
}

func isInt(s string) bool {
	if s == "" {
		return false
	}
	for i, c := range s {
		if (c < '0' || c > '9') && !(i == 0 && c == '-') {
			return false
		}
	}
	return true
}

func jsonField(raw json.RawMessage, empty *int) error {
	var f map[string]json.RawMessage
	if err := json.Unmarshal(raw, &f); err != nil {
		return fmt.Errorf("field descriptor: %v", err)
	}
	t, ok := f["t"]
	if !ok {
		return fmt.Errorf("field descriptor without t")
	}
	for k, v := range f {
		switch k {
		case "t":
		case "n":
			var s string
			if err := json.Unmarshal(v, &s); err != nil {
				return fmt.Errorf("field name: %v", err)
			}
		default:
			return fmt.Errorf("field descriptor: unknown member %q", k)
		}
	}
	return jsonType(t, empty)
}

func jsonType(raw json.RawMessage, empty *int) error {
	var t map[string]json.RawMessage
	if err := json.Unmarshal(raw, &t); err != nil {
		return fmt.Errorf("type descriptor: %v", err)
	}
	kinds := 0
	for k, v := range t {
		switch k {
		case "a":
			var a map[string]string
			if err := json.Unmarshal(v, &a); err != nil {
				return fmt.Errorf("annotations: %v", err)
			}
		case "b", "n":
			var s string
			if err := json.Unmarshal(v, &s); err != nil || s == "" {
				return fmt.Errorf("%s: not a non-empty string", k)
			}
			kinds++
		case "k", "v":
			if err := jsonType(v, empty); err != nil {
				return err
			}
			if k == "v" || t["v"] == nil {
				kinds++
			}
		case "e":
			var e map[string][]string
			if err := json.Unmarshal(v, &e); err != nil {
				return fmt.Errorf("enum values: %v", err)
			}
			for val := range e {
				if !isInt(val) {
					return fmt.Errorf("enum value %q is not a number", val)
				}
			}
			kinds++
		case "s", "u":
			var fields map[string]json.RawMessage
			if err := json.Unmarshal(v, &fields); err != nil {
				return fmt.Errorf("%s: %v", k, err)
			}
			for id, f := range fields {
				if !isInt(id) {
					return fmt.Errorf("field id %q is not a number", id)
				}
				if err := jsonField(f, empty); err != nil {
					return fmt.Errorf("field %s: %v", id, err)
				}
			}
			kinds++
		default:
			return fmt.Errorf("type descriptor: unknown member %q", k)
		}
	}
	if kinds > 1 {
		return fmt.Errorf("type descriptor with %d kinds (exactly one of b | k,v | k | v | n | e | s | u expected)", kinds)
	}
	if kinds == 0 && empty != nil {
		*empty++
	}
	return nil
}

// ---------------------------------------------------------------------------
// external oracles: javac parser, CPython 2.7 / 3, html.parser

type fileError struct {
	File string
	Line string
	Msg  string
}

type extOracles struct {
	mu        sync.Mutex
	javaCP    string
	javaErr   error
	javaOnce  sync.Once
	py2       []string // argv prefix of the CPython 2.7 interpreter
	py2Err    error
	py2Once   sync.Once
	py2Env    []string
	pyVersion map[string]string
}

// javaClasses returns a class path holding ParseOnly.class: /verif/java/classes
// (built by setup.sh) when it is at least as new as the source, otherwise a
// lazy build into the scratch directory.
func (o *extOracles) javaClasses() (string, error) {
	o.javaOnce.Do(func() {
		src := filepath.Join(ev.Root(), "java", "ParseOnly.java")
		pre := filepath.Join(ev.Root(), "java", "classes")
		si, err := os.Stat(src)
		if err != nil {
			o.javaErr = fmt.Errorf("java oracle source missing: %v", err)
			return
		}
		if ci, err := os.Stat(filepath.Join(pre, "ParseOnly.class")); err == nil && !ci.ModTime().Before(si.ModTime()) {
			o.javaCP = pre
			return
		}
		dst := filepath.Join(ev.ScratchDir(), "c11-java-classes")
		os.MkdirAll(dst, 0o755)
		cmd := exec.Command("javac", "-d", dst, src)
		if b, err := cmd.CombinedOutput(); err != nil {
			o.javaErr = fmt.Errorf("javac ParseOnly.java: %v: %s", err, b)
			return
		}
		o.javaCP = dst
	})
	return o.javaCP, o.javaErr
}

// python2 finds CPython 2.7.
func (o *extOracles) python2() ([]string, []string, error) {
	o.py2Once.Do(func() {
		try := func(argv []string, env []string) bool {
			cmd := exec.Command(argv[0], append(argv[1:], "--version")...)
			cmd.Env = append(os.Environ(), env...)
			b, err := cmd.CombinedOutput()
			return err == nil && strings.Contains(string(b), "Python 2.7")
		}
		if try([]string{"python"}, []string{"PYENV_VERSION=2.7.18"}) {
			o.py2, o.py2Env = []string{"python"}, []string{"PYENV_VERSION=2.7.18"}
			return
		}
		for _, c := range []string{"python2.7", "python2"} {
			if try([]string{c}, nil) {
				o.py2 = []string{c}
				return
			}
		}
		o.py2Err = fmt.Errorf("no CPython 2.7 found (tried PYENV_VERSION=2.7.18 python, python2.7, python2)")
	})
	return o.py2, o.py2Env, o.py2Err
}

// runListOracle writes files to a list file, runs argv+[list] and parses the
// "ERROR\tfile\tline\tmsg" lines.  ok=false when the oracle itself failed.
func runListOracle(tag string, argv []string, env []string, listArgPrefix string, files []string) (errs []fileError, checked string, err error) {
	if len(files) == 0 {
		return nil, "0", nil
	}
	lf, e := os.CreateTemp(ev.ScratchDir(), "c11-"+tag+"-*.list")
	if e != nil {
		return nil, "", e
	}
	lf.WriteString(strings.Join(files, "\n") + "\n")
	lf.Close()
	defer os.Remove(lf.Name())
	cmd := exec.Command(argv[0], append(argv[1:], listArgPrefix+lf.Name())...)
	cmd.Env = append(os.Environ(), env...)
	var so, se bytes.Buffer
	cmd.Stdout, cmd.Stderr = &so, &se
	done := make(chan error, 1)
	if e := cmd.Start(); e != nil {
		return nil, "", e
	}
	go func() { done <- cmd.Wait() }()
	select {
	case <-done:
	case <-time.After(10 * time.Minute):
		cmd.Process.Kill()
		return nil, "", fmt.Errorf("%s oracle did not finish within 10 minutes", tag)
	}
	completed := false
	for _, l := range strings.Split(so.String(), "\n") {
		p := strings.SplitN(l, "\t", 4)
		switch {
		case len(p) == 4 && p[0] == "ERROR":
			errs = append(errs, fileError{File: p[1], Line: p[2], Msg: p[3]})
		case len(p) >= 2 && (p[0] == "CHECKED" || p[0] == "PARSED"):
			completed = true
			checked = strings.Join(p[1:], " ")
		}
	}
	if !completed {
		return nil, "", fmt.Errorf("%s oracle did not run to completion: %s %s", tag, clip(so.String(), 300), clip(se.String(), 600))
	}
	return errs, checked, nil
}

// chunks splits files into at most n parts.
func chunks(files []string, n int) [][]string {
	sort.Strings(files)
	if len(files) == 0 {
		return nil
	}
	if n > len(files) {
		n = len(files)
	}
	out := make([][]string, n)
	for i, f := range files {
		out[i%n] = append(out[i%n], f)
	}
	return out
}

func clip(s string, n int) string {
	if len(s) > n {
		return s[:n] + "…"
	}
	return s
}
