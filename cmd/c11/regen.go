package main

import (
	"fmt"
	"go/parser"
	"go/token"
	"io/fs"
	"math/rand"
	"os"
	"path/filepath"
	"strconv"
	"strings"
	"time"

	"verif/emit"
	"verif/idl"
)

// Regeneration histories: the -out directory is not empty.  It already holds
// what an earlier run of the compiler emitted -- for an earlier revision of
// the program (larger, smaller, declarations renamed or removed) or for another
// option set / flavour of the same target family.  That is the everyday use of
// the compiler (generated code is checked in and regenerated in place), and the
// statement does not make the emptiness of -out a precondition: the second
// compilation must exit 0 and every file IT emits must be well-formed source
// for its target.  Files of the earlier run that the second run does not write
// (a removed service's module) are not output of the second run and are not
// judged: before the second run every file gets a sentinel modification time,
// afterwards the files whose time differs are the ones the run wrote.

// declarations appended to the root file of a program to make a larger
// revision of it (long names), and their short-named counterparts.
const regenExtrasLong = `
struct ZzRegenPayloadWithALongName { 1: i32 amount, 2: optional string description, 3: list<i64> history }
enum ZzRegenKindWithALongName { FIRST_MEMBER, SECOND_MEMBER, THIRD_MEMBER }
exception ZzRegenFailureWithALongName { 1: string message }
const i32 ZZ_REGEN_LIMIT_WITH_A_LONG_NAME = 5
service ZzRegenOmegaServiceWithALongName {
  ZzRegenPayloadWithALongName fetch(1: i32 id) throws (1: ZzRegenFailureWithALongName failure),
  oneway void poke(1: string reason),
  ZzRegenKindWithALongName kindOf(1: ZzRegenPayloadWithALongName payload)
}
service ZzRegenSecondServiceWithALongName { void ping() }
scope ZzRegenEventsWithALongName prefix zz.{tenant}.regen { Created: ZzRegenPayloadWithALongName, Removed: ZzRegenPayloadWithALongName }
scope ZzRegenSecondScopeWithALongName { Ticked: ZzRegenPayloadWithALongName }
`

const regenExtrasShort = `
struct ZzP { 1: i32 a }
enum ZzK { A }
exception ZzF { 1: string m }
const i32 ZZ_L = 5
service ZzO { ZzP f(1: i32 i) throws (1: ZzF f) }
scope ZzE prefix zz.{tn} { C: ZzP }
`

// regenStep is the earlier run of a regeneration history.
type regenStep struct {
	Kind string
	Dir  string // source directory of the earlier revision
	T    target
	S    optSet
	// observed
	Rewritten, Stale, Shrunk int
}

var regenSentinel = time.Date(2001, 2, 3, 4, 5, 6, 0, time.UTC)

// regenKinds: what the -out directory holds when the judged compilation starts.
var regenKinds = []string{
	"regen_earlier_revision_larger",           // earlier: program + long-named services / scopes / types
	"regen_earlier_revision_smaller",          // earlier: the program without the extras it has now
	"regen_earlier_revision_longer_names",     // earlier: the same extras under long names, now short
	"regen_earlier_revision_removed_services", // earlier: the program before its own scopes / leaf services were deleted
	"regen_earlier_run_other_options",         // earlier: same program, another option set / flavour of the family
}

// regenUnits builds the units of the regeneration pool: one per (base
// program, kind).  Src is the revision that is judged, PrevSrc the earlier one.
func regenUnits(rnd func(string) *rand.Rand, nbase, firstIdx int) []*unit {
	var out []*unit
	for b := 0; b < nbase; b++ {
		rng := rnd(fmt.Sprintf("c11-regen-%d", b))
		cfg := idl.CoreConfig()
		cfg.ThriftExt = false // scopes are appended to the root file
		var p *idl.Program
		// the removed_services kind needs a root file with something to remove
		for try := 0; ; try++ {
			p = idl.Generate(rng, cfg)
			if len(removableDecls(p)) > 0 || try == 20 {
				break
			}
		}
		for _, kind := range regenKinds {
			u := newUnit(firstIdx+len(out), fmt.Sprintf("regen-%d:%s", b, kind), "regen", kind, kind, p, idl.DefaultStyle())
			u.Features = append(u.Features, kind)
			root := u.Root
			prev := map[string]string{}
			for n, s := range u.Src {
				prev[n] = s
			}
			switch kind {
			case "regen_earlier_revision_larger":
				prev[root] = u.Src[root] + "\n" + regenExtrasLong
			case "regen_earlier_revision_smaller":
				u.Src[root] = u.Src[root] + "\n" + regenExtrasLong
			case "regen_earlier_revision_longer_names":
				prev[root] = u.Src[root] + "\n" + regenExtrasLong
				u.Src[root] = u.Src[root] + "\n" + regenExtrasShort
			case "regen_earlier_revision_removed_services":
				rm := removableDecls(p)
				if len(rm) == 0 {
					continue
				}
				q := p.Clone()
				rf := q.Root()
				var kept []*idl.Decl
				for _, d := range rf.Decls {
					if !rm[d.Name()] {
						kept = append(kept, d)
					}
				}
				rf.Decls = kept
				u.Src[root] = idl.RenderFile(rf, idl.DefaultStyle())
			case "regen_earlier_run_other_options":
				prev = nil // same sources
			}
			u.PrevSrc = prev
			out = append(out, u)
		}
	}
	return out
}

// removableDecls names the scopes of the root file and its services that no
// service of the program extends: declarations nothing else refers to.
func removableDecls(p *idl.Program) map[string]bool {
	extended := map[string]bool{}
	for _, f := range p.Files {
		for _, d := range f.Decls {
			if d.Service != nil && d.Service.Extends != "" {
				e := d.Service.Extends
				extended[e[strings.LastIndex(e, ".")+1:]] = true
			}
		}
	}
	rm := map[string]bool{}
	for _, d := range p.Root().Decls {
		if d.Scope != nil || d.Service != nil && !extended[d.Service.Name] {
			rm[d.Name()] = true
		}
	}
	return rm
}

// family lists the (target, option set) pairs an -out directory is shared
// with: the other option sets of the target and, for Python, the other two
// flavours (py / py:asyncio / py:tornado emit the same package).
func (c *c11) family(t target) []struct {
	T target
	S optSet
} {
	var out []struct {
		T target
		S optSet
	}
	for _, o := range c.tgts {
		if o.Name != t.Name && !(strings.HasPrefix(o.Name, "py") && strings.HasPrefix(t.Name, "py")) {
			continue
		}
		for _, s := range o.Sets {
			if strings.Contains(s.Opts, "{SUB}") {
				continue // only meaningful inside the Go harness module
			}
			out = append(out, struct {
				T target
				S optSet
			}{o, s})
		}
	}
	return out
}

// addRegenComps selects the compilations of a regeneration unit: the json
// gate, then one history per target (thorough: two).
func (c *c11) addRegenComps(u *unit, unitComps map[*unit][]*comp, thorough bool, seed int) {
	if seed < 0 {
		seed = -seed
	}
	add := func(t target, s optSet, st *regenStep) {
		cp := &comp{ID: len(c.comps), U: u, T: t, S: s, Regen: st}
		c.outIndex[fmt.Sprint(cp.ID)] = cp
		c.comps = append(c.comps, cp)
		unitComps[u] = append(unitComps[u], cp)
	}
	for _, t := range c.tgts {
		if t.Name == "json" {
			add(t, t.Sets[0], nil) // the gate
		}
	}
	per := 1
	if thorough {
		per = 2
	}
	for ti, t := range c.tgts {
		fam := c.family(t)
		var own []optSet
		for _, f := range fam {
			if f.T.Name == t.Name {
				own = append(own, f.S)
			}
		}
		for j := 0; j < per; j++ {
			s := own[(u.Idx+ti+seed+j)%len(own)]
			st := &regenStep{Kind: u.Class, Dir: u.Dir, T: t, S: s}
			if u.PrevSrc != nil {
				st.Dir = u.Dir + "_earlier"
			} else {
				// another member of the family
				var others []struct {
					T target
					S optSet
				}
				for _, f := range fam {
					if f.T.Name != t.Name || f.S.Label != s.Label {
						others = append(others, f)
					}
				}
				o := others[(u.Idx*3+ti+seed+j)%len(others)]
				st.T, st.S = o.T, o.S
			}
			add(t, s, st)
		}
	}
}

// writeEarlier writes the earlier revision of a regeneration unit.
func (c *c11) writeEarlier(u *unit) error {
	if u.PrevSrc == nil {
		return nil
	}
	dir := u.Dir + "_earlier"
	if err := os.MkdirAll(dir, 0o755); err != nil {
		return err
	}
	for n, s := range u.PrevSrc {
		if err := os.WriteFile(filepath.Join(dir, n), []byte(s), 0o644); err != nil {
			return err
		}
	}
	return nil
}

func regenArgs(t target, s optSet, out, root string) []string {
	args := []string{"-gen", t.gen(s), "-r"}
	args = append(args, s.Extra...)
	return append(args, "-out", out, root)
}

// compileRegen runs the history of cp: the earlier run into the empty -out,
// then (all files aged to the sentinel time) the judged run into the same
// directory.  It returns the result of the judged run, nil when the earlier
// run already failed (reported here).
func (c *c11) compileRegen(cp *comp) *emit.Result {
	st := cp.Regen
	cp.OutDir = filepath.Join(c.base, "out", strconv.Itoa(cp.ID))
	first := c.runCompiler("", st.Dir, 60*time.Second, regenArgs(st.T, st.S, cp.OutDir, cp.U.Root)...)
	c.run.Add("regeneration:earlier_runs", 1)
	if first.TimedOut || first.ExitCode != 0 {
		out := first.Stdout + first.Stderr
		what := "the earlier run of a regeneration history (a valid program compiled into an empty -out) failed"
		diag := "generator-abort"
		if k := crashKind(out, first.ExitCode, first.Signaled); k != "" {
			diag = "crash:" + k
		} else if first.TimedOut {
			diag = "hang"
		}
		c.fail(diag, cp, what, out, "")
		return nil
	}
	sizes := map[string]int64{}
	filepath.WalkDir(cp.OutDir, func(p string, d fs.DirEntry, err error) error {
		if err == nil && d.Type().IsRegular() {
			if fi, e := d.Info(); e == nil {
				sizes[p] = fi.Size()
			}
			os.Chtimes(p, regenSentinel, regenSentinel)
		}
		return nil
	})
	res := c.runCompiler("", cp.U.Dir, 60*time.Second, regenArgs(cp.T, cp.S, cp.OutDir, cp.U.Root)...)
	c.run.Add("regeneration:histories", 1)
	filepath.WalkDir(cp.OutDir, func(p string, d fs.DirEntry, err error) error {
		if err != nil || !d.Type().IsRegular() {
			return nil
		}
		fi, e := d.Info()
		if e != nil {
			return nil
		}
		if fi.ModTime().Equal(regenSentinel) {
			st.Stale++
			return nil
		}
		st.Rewritten++
		if old, ok := sizes[p]; ok && fi.Size() < old {
			st.Shrunk++
		}
		return nil
	})
	c.run.Add("regeneration:files_written_by_the_judged_run", st.Rewritten)
	c.run.Add("regeneration:files_left_from_the_earlier_run(not judged)", st.Stale)
	c.run.Add("regeneration:files_rewritten_shorter_than_before", st.Shrunk)
	return res
}

// emitted lists the files with the given suffix that the judged compilation
// wrote: everything below OutDir, minus (regeneration histories) the files
// that still carry the sentinel time.
func (cp *comp) emitted(suffix string) []string {
	all := listFiles(cp.OutDir, suffix)
	if cp.Regen == nil {
		return all
	}
	var out []string
	for _, f := range all {
		if fi, err := os.Stat(f); err == nil && !fi.ModTime().Equal(regenSentinel) {
			out = append(out, f)
		}
	}
	return out
}

// goParseOracle judges Go emitted by a regeneration history: syntax only
// (go/parser).  The package directory also holds files of the earlier run, so
// a type check of the directory would judge more than the run emitted.
func (c *c11) goParseOracle(cp *comp) {
	n := 0
	for _, f := range cp.emitted(".go") {
		n++
		if _, err := parser.ParseFile(token.NewFileSet(), f, nil, parser.AllErrors); err != nil {
			rel, _ := filepath.Rel(cp.OutDir, f)
			c.fail("emitted-code-rejected", cp, "emitted Go does not parse (go/parser; regeneration histories are parsed only)", rel+": "+err.Error(), rel)
			break
		}
	}
	c.run.Add("files_checked:go(parse only, regeneration)", n)
}
