package main

import (
	"fmt"
	"strings"
)

// Near-miss identifiers: texts that are almost a valid program.  Every place
// where the grammar demands an identifier (Thrift's lexical rule: a letter or
// '_' followed by letters, digits, '.' and '_') is filled with a spelling that
// is not one -- leading digit, digits only, nothing at all, punctuation only,
// punctuation at the start / inside / at the end.  Such a text is not valid
// IDL whatever the target: every target must answer with a non-zero exit
// status and a diagnostic.  Many of the names are pasted verbatim into the
// emitted source (prefix variables become parameter names of publish and
// subscribe), so an accepted near miss is malformed output as well.
//
// Each position also runs with a proper identifier (control): the template
// itself is valid, so the rejection is due to the spelling alone.

// nearMissCarrier is the valid program every snippet is appended to.
const nearMissCarrier = "namespace * zzcarrier\n\nstruct ZzCarrier { 1: i32 n, 2: optional string s }\nservice ZzCarrierSvc { ZzCarrier get(1: i32 id) }\nscope ZzCarrierEvents prefix zz.{tenant} { Stored: ZzCarrier }\n\n"

// nearMissControl is the proper identifier of the control runs; templates
// whose slot is a reference declare it themselves.
const nearMissControl = "ZzCtl"

// identifier positions: %s is the slot.
var nearMissPositions = []struct {
	Name string
	Tmpl string
	// PrefixVar: the slot is a {variable} of a scope prefix.  The grammar reads a
	// braced token there and a hand-written check (newScopePrefix) decides
	// whether the name is an identifier: a different code path from the
	// Identifier rule that governs every other position.
	PrefixVar bool
}{
	{"struct_name", "struct %s { 1: i32 a }", false},
	{"union_name", "union %s { 1: i32 a, 2: string b }", false},
	{"exception_name", "exception %s { 1: string m }", false},
	{"field_name", "struct ZzS { 1: i32 %s }", false},
	{"field_name_with_default", "struct ZzS { 1: i32 first, 2: optional i32 %s = 4, 3: string last }", false},
	{"field_type_name", "struct ZzCtl { 1: i32 a }\nstruct ZzS { 1: %s a }", false},
	{"container_element_type_name", "struct ZzCtl { 1: i32 a }\nstruct ZzS { 1: list<%s> a }", false},
	{"enum_name", "enum %s { A, B }", false},
	{"enum_value_name", "enum ZzE { FIRST = 1, %s = 2, LAST = 3 }", false},
	{"typedef_name", "typedef i64 %s\nstruct ZzAfter { 1: i32 a }", false},
	{"const_name", "const i32 %s = 1", false},
	{"service_name", "service %s { void m() }", false},
	{"extends_name", "service ZzCtl { void b() }\nservice ZzS extends %s { void m() }", false},
	{"method_name", "service ZzS { void first(), i32 %s(1: i32 a), void last() }", false},
	{"argument_name", "service ZzS { void m(1: i32 first, 2: string %s) }", false},
	{"throws_name", "exception ZzX { 1: string m }\nservice ZzS { void m() throws (1: ZzX %s) }", false},
	{"return_type_name", "struct ZzCtl { 1: i32 a }\nservice ZzS { %s m() }", false},
	{"scope_name", "struct ZzP { 1: i32 a }\nscope %s { Op: ZzP }", false},
	{"scope_name_before_prefix", "struct ZzP { 1: i32 a }\nscope %s prefix a.b { Op: ZzP }", false},
	{"operation_name", "struct ZzP { 1: i32 a }\nscope ZzE { First: ZzP, %s: ZzP }", false},
	{"operation_type_name", "struct ZzCtl { 1: i32 a }\nscope ZzE { Op: %s }", false},
	{"annotation_name", "struct ZzS { 1: i32 a } (%s = \"v\")", false},
	{"prefix_variable_only", "struct ZzP { 1: i32 a }\nscope ZzE prefix {%s} { Created: ZzP }", true},
	{"prefix_variable_first", "struct ZzP { 1: i32 a }\nscope ZzE prefix {%s}.bar { Created: ZzP }", true},
	{"prefix_variable_middle", "struct ZzP { 1: i32 a }\nscope ZzE prefix foo.{%s}.bar { Created: ZzP }", true},
	{"prefix_variable_last", "struct ZzP { 1: i32 a }\nscope ZzE prefix foo.{%s} { Created: ZzP, Removed: ZzP }", true},
	{"prefix_variable_second_of_two", "struct ZzP { 1: i32 a }\nscope ZzE prefix foo.{user}.{%s} { Created: ZzP }", true},
}

// near-miss spellings by class.  Only characters that no reading of the
// grammar makes part of an identifier or of the surrounding syntax: no '.',
// no white space (`A, a b, C` is three enum members), no quotes, brackets,
// separators or comment starters, no non-ASCII letters (every target
// language takes them in identifiers: not clearly invalid).
var nearMissSpellings = []struct {
	Class string
	Texts []string
	// Word: made of [A-Za-z0-9_] only (what \w matches)
	Word bool
}{
	{"leading_digit", []string{"1st", "2_fast", "9Lives", "0x"}, true},
	{"digits_only", []string{"9", "007"}, true},
	{"empty", []string{""}, true},
	{"punctuation_only", []string{"-", "$", "@", "%", "--"}, false},
	{"leading_punctuation", []string{"-a", "$name", "@id", "%s"}, false},
	{"embedded_punctuation", []string{"a-b", "user$id", "a@b", "x%y"}, false},
	{"trailing_punctuation", []string{"a-", "name$", "id@"}, false},
}

// genNearMisses lists the near-miss inputs: a pure function of (seed, tier).
//
// thorough: every position x every spelling x every target.  quick: every
// position x every spelling class (one spelling of the class, rotating with
// position and seed); positions governed by the grammar's Identifier rule run
// for json (the parse / validation gate) and one rotating target; prefix
// variables made of word characters run every spelling for json and three
// rotating targets (every target is reached for every class across the five
// prefix positions); braced punctuation runs for two rotating targets.
func genNearMisses(seed int64, thorough bool) []*negCase {
	all := []string{"json", "go", "java", "dart", "py", "py:asyncio", "py:tornado", "html"}
	var cases []*negCase
	k := int(seed % 7)
	if k < 0 {
		k = -k
	}
	rot := func(n int, withJSON bool) []string {
		if thorough {
			return all
		}
		var out []string
		if withJSON {
			out = append(out, "json")
		}
		for j := 0; j < n; j++ {
			k++
			out = append(out, all[1+k%(len(all)-1)])
		}
		return out
	}
	for pi, pos := range nearMissPositions {
		// control: a proper identifier in the same slot must compile
		for _, t := range rot(1, true) {
			cases = append(cases, &negCase{Class: "identifier_near_miss_control", Files: map[string]string{"nm.frugal": nearMissCarrier + fmt.Sprintf(pos.Tmpl, nearMissControl) + "\n"}, Root: "nm.frugal", Target: t, MustSucceed: true,
				Note: fmt.Sprintf("position %s filled with the proper identifier %s", pos.Name, nearMissControl)})
		}
		for ci, sp := range nearMissSpellings {
			texts := sp.Texts
			if !thorough && !(pos.PrefixVar && sp.Word) {
				texts = []string{sp.Texts[(pi+ci+int(seed%5)+5)%len(sp.Texts)]}
			}
			for _, text := range texts {
				sub := "grammar_identifier:" + sp.Class
				var tgts []string
				switch {
				case pos.PrefixVar && sp.Word:
					sub = "prefix_variable:" + sp.Class
					tgts = rot(3, true)
				case pos.PrefixVar:
					// a braced token that the compiler's \w* does not match
					sub = "prefix_variable:braced_non_word_token"
					tgts = rot(2, false)
				default:
					tgts = rot(1, true)
				}
				for _, t := range tgts {
					cases = append(cases, &negCase{Class: "identifier_near_miss", Sub: sub, Files: map[string]string{"nm.frugal": nearMissCarrier + fmt.Sprintf(pos.Tmpl, text) + "\n"}, Root: "nm.frugal", Target: t, Invalid: true,
						Note: fmt.Sprintf("position %s filled with %q (%s)", pos.Name, text, strings.ReplaceAll(sp.Class, "_", " "))})
				}
			}
		}
	}
	return cases
}
