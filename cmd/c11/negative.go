package main

import (
	"encoding/hex"
	"encoding/json"
	"fmt"
	"math/rand"
	"os"
	"path/filepath"
	"regexp"
	"strings"
	"sync"
	"time"

	"verif/idl"
)

// negCase is one input of the negative side: arbitrary / mutated text.
type negCase struct {
	I       int
	Class   string
	Sub     string            // refinement of Class that goes into the signature only ("" = none)
	Files   map[string]string // name -> content (raw bytes in a string)
	Root    string
	Target  string // -gen value
	Invalid bool   // definitely invalid by construction: exit 0 is a violation
	Note    string
	// multi-file invocations of the CLI: every file argument in order (nil =
	// Root only) and, for all-valid invocations, what each of them must emit
	Roots       []string
	MustSucceed bool     // every input is valid: exit 0 and ExpectFiles present
	ExpectFiles []string // paths relative to -out
}

// small valid programs that the mutation operators start from
func negBaseConfig() idl.Config {
	c := idl.CoreConfig()
	c.MinFiles, c.MaxFiles = 1, 2
	c.MinTypes, c.MaxTypes = 1, 3
	c.MaxFields, c.MaxDepth = 4, 2
	c.MaxServices, c.MaxScopes, c.MaxMethods, c.MaxArgs = 1, 1, 3, 3
	return c
}

var reTok = regexp.MustCompile(`[A-Za-z_][A-Za-z0-9_.]*|\d+|"(?:[^"\\]|\\.)*"|'(?:[^'\\]|\\.)*'|\s+|.`)

type tok struct {
	s     string
	space bool
}

func tokenise(s string) []tok {
	var out []tok
	for _, m := range reTok.FindAllString(s, -1) {
		out = append(out, tok{m, strings.TrimSpace(m) == ""})
	}
	return out
}

func joinToks(t []tok) string {
	var b strings.Builder
	for _, x := range t {
		b.WriteString(x.s)
	}
	return b.String()
}

func nonSpace(t []tok) []int {
	var idx []int
	for i, x := range t {
		if !x.space {
			idx = append(idx, i)
		}
	}
	return idx
}

// tinyFiles are hand-written small files truncated at every offset.
var tinyFiles = []string{
	"namespace go tiny\ninclude \"inc.frugal\"\ntypedef i32 ID\nenum E { A = 1, B }\nconst map<string,i32> M = {\"a\": 1}\nstruct S { 1: required ID id = 3, 2: optional list<inc.T> l (a = \"b\") }\nexception X { 1: string m }\nservice V extends inc.B { S get(1: ID id) throws (1: X x), oneway void fire() }\nscope Ev prefix a.{u} { Op: S }\n",
	"/**@ doc */\nunion U { 1: binary b; 2: set<double> d }\n// c\nconst list<E> L = [E.A]\nenum E { A }\nservice Q { map<i64,U> m(1: U u, 2: bool f = true) }\n",
	"struct A{1:string a='x\\'y'}\n# h\n/* b */ const double D = -1.5e3 const i64 H = 0x1F\n",
}

const tinyInc = "struct T { 1: i32 x }\nservice B { void ping() }\n"

// genNegatives builds the list of negative inputs: a pure function of (seed, n).
func genNegatives(rng *rand.Rand, n int, thorough bool) []*negCase {
	var cases []*negCase
	nonJSON := []string{"go", "java", "dart", "py", "py:asyncio", "py:tornado", "html"}
	all := append([]string{"json"}, nonJSON...)
	add := func(c *negCase) {
		c.I = len(cases)
		if c.Target == "" {
			c.Target = "json"
		}
		cases = append(cases, c)
	}

	// base programs
	nbase := 24
	if thorough {
		nbase = 200
	}
	type baseProg struct {
		files map[string]string
		root  string
	}
	var bases []baseProg
	for i := 0; i < nbase; i++ {
		p := idl.Generate(rng, negBaseConfig())
		style := idl.DefaultStyle()
		if i%2 == 1 {
			style = idl.RandomStyle(rng)
		}
		b := baseProg{files: map[string]string{}, root: p.Root().FileName()}
		for _, f := range p.Files {
			b.files[f.FileName()] = idl.RenderFile(f, style)
		}
		bases = append(bases, b)
	}
	clone := func(b baseProg) map[string]string {
		m := map[string]string{}
		for k, v := range b.files {
			m[k] = v
		}
		return m
	}
	pick := func() baseProg { return bases[rng.Intn(len(bases))] }

	// 1. truncation at every offset of small files
	ntiny := 1
	if thorough {
		ntiny = len(tinyFiles)
	}
	for ti := 0; ti < ntiny; ti++ {
		t := tinyFiles[ti]
		step := 1
		if !thorough {
			step = 2 // every second offset in the quick tier
		}
		for off := 0; off < len(t); off += step {
			add(&negCase{Class: "truncate_every_offset", Files: map[string]string{"tiny.frugal": t[:off], "inc.frugal": tinyInc}, Root: "tiny.frugal"})
		}
	}
	if thorough {
		// every offset of a few rendered random programs as well
		for k := 0; k < 12; k++ {
			b := pick()
			text := b.files[b.root]
			if len(text) > 700 {
				continue
			}
			for off := 0; off < len(text); off++ {
				f := clone(b)
				f[b.root] = text[:off]
				add(&negCase{Class: "truncate_every_offset", Files: f, Root: b.root})
			}
		}
	}

	// 2. semantic classes: a valid random program plus one construct
	type builder struct {
		n     int                                                         // number of variants
		build func(b baseProg, k int) (map[string]string, string, string) // files, root, note
	}
	type semantic struct {
		class   string
		invalid bool
		targets []string
		builder
	}
	appendTo := func(snips ...string) builder {
		return builder{len(snips), func(b baseProg, k int) (map[string]string, string, string) {
			f := clone(b)
			s := snips[k%len(snips)]
			f[b.root] = f[b.root] + "\n" + s + "\n"
			return f, b.root, s
		}}
	}
	prependTo := func(snips ...string) builder {
		return builder{len(snips), func(b baseProg, k int) (map[string]string, string, string) {
			f := clone(b)
			s := snips[k%len(snips)]
			f[b.root] = s + "\n" + f[b.root]
			return f, b.root, s
		}}
	}
	deep := func(d int) string {
		return "struct ZzDeep { 1: " + strings.Repeat("list<", d) + "i32" + strings.Repeat(">", d) + " f }"
	}
	sem := []semantic{
		{"unknown_type", true, all, appendTo(
			"struct ZzUnk { 1: NoSuchTypeZz a }",
			"union ZzUnk { 1: list<NoSuchTypeZz> a }",
			"exception ZzUnk { 1: map<string,NoSuchTypeZz> a }",
			"service ZzUnk { void m(1: NoSuchTypeZz a) }",
			"service ZzUnk { NoSuchTypeZz m() }",
			"exception ZzEx { 1: string m }\nservice ZzUnk { void m() throws (1: NoSuchTypeZz e) }",
			"typedef NoSuchTypeZz ZzAlias",
			"const NoSuchTypeZz ZZ_C = 1",
			"struct ZzP { 1: i32 a }\nscope ZzUnk { Op: NoSuchTypeZz }",
			"struct ZzUnk { 1: nosuchinclude.Thing a }",
			"struct ZzUnk { 1: set<nosuchinclude.Thing> a }",
		)},
		{"duplicate_field_id", true, all, appendTo(
			"struct ZzDup { 1: i32 a, 1: i32 b }",
			"union ZzDup { 3: i32 a, 2: string c, 3: i64 b }",
			"exception ZzDup { 1: string a; 1: string b }",
			"service ZzDup { void m(1: i32 a, 1: i32 b) }",
		)},
		{"missing_include", true, all, prependTo(
			"include \"zz_missing.frugal\"",
			"include \"sub/dir/zz_missing.thrift\"",
		)},
		{"circular_include", true, all, builder{3, func(b baseProg, k int) (map[string]string, string, string) {
			f := clone(b)
			switch k % 3 {
			case 0: // self include
				f[b.root] = "include \"" + b.root + "\"\n" + f[b.root]
				return f, b.root, "self include"
			case 1:
				f["zz_a.frugal"] = "include \"zz_b.frugal\"\nstruct ZzA { 1: i32 a }\n"
				f["zz_b.frugal"] = "include \"zz_a.frugal\"\nstruct ZzB { 1: i32 a }\n"
				f[b.root] = "include \"zz_a.frugal\"\n" + f[b.root]
				return f, b.root, "2-cycle below the root"
			}
			f["zz_a.frugal"] = "include \"zz_b.frugal\"\nstruct ZzA { 1: i32 a }\n"
			f["zz_b.frugal"] = "include \"zz_c.frugal\"\nstruct ZzB { 1: i32 a }\n"
			f["zz_c.frugal"] = "include \"" + b.root + "\"\nstruct ZzC { 1: i32 a }\n"
			f[b.root] = "include \"zz_a.frugal\"\n" + f[b.root]
			return f, b.root, "4-cycle through the root"
		}}},
		{"unbalanced_braces", true, all, appendTo(
			"struct ZzOpen { 1: i32 a",
			"struct ZzOpen { 1: i32 a }}",
			"service ZzOpen { void m(1: i32 a }",
			"enum ZzOpen { A, B",
			"const list<i32> ZZ_L = [1, 2",
			"const map<string,i32> ZZ_M = {\"a\": 1",
			"struct ZzOpen { 1: list<i32 a }",
			"}",
		)},
		{"unterminated_literal", true, all, appendTo(
			"const string ZZ_S = \"never closed",
			"const string ZZ_S = 'never closed",
			"/* never closed",
			"struct ZzS { 1: i32 a } /**@ never closed",
		)},
		{"cyclic_typedef", true, all, appendTo(
			"typedef ZzA ZzA",
			"typedef ZzA ZzB\ntypedef ZzB ZzA",
			"typedef ZzA ZzB\ntypedef ZzB ZzC\ntypedef ZzC ZzA",
			"typedef ZzA ZzB\ntypedef ZzB ZzA\nstruct ZzUse { 1: ZzA a }",
			"typedef ZzA ZzA\nservice ZzSvc { ZzA m(1: ZzA a) }",
		)},
		{"cyclic_typedef_in_container", true, all, appendTo(
			"typedef list<ZzA> ZzA",
			"typedef map<string,ZzB> ZzA\ntypedef list<ZzA> ZzB\nstruct ZzUse { 1: ZzA a }",
		)},
		{"cyclic_extends", true, all, appendTo(
			"service ZzA extends ZzA { void m() }",
			"service ZzA extends ZzB { void m() }\nservice ZzB extends ZzA { void n() }",
			"service ZzA extends ZzB { void m() }\nservice ZzB extends ZzC { void n() }\nservice ZzC extends ZzA { void o() }",
		)},
		// a service outside the cycle that extends into it, declared before /
		// between / after the members of the cycle (validation walks the chain
		// from every service in declaration order)
		{"extends_tail_into_cycle", true, all, appendTo(
			"service ZzLeaf extends ZzA { void l() }\nservice ZzA extends ZzB { void m() }\nservice ZzB extends ZzA { void n() }",
			"service ZzA extends ZzB { void m() }\nservice ZzLeaf extends ZzA { void l() }\nservice ZzB extends ZzA { void n() }",
			"service ZzA extends ZzB { void m() }\nservice ZzB extends ZzA { void n() }\nservice ZzLeaf extends ZzA { void l() }",
			"service ZzLeaf extends ZzA { void l() }\nservice ZzA extends ZzA { void m() }",
			"service ZzTip extends ZzLeaf { void t() }\nservice ZzLeaf extends ZzB { void l() }\nservice ZzA extends ZzB { void m() }\nservice ZzB extends ZzC { void n() }\nservice ZzC extends ZzA { void o() }",
			"service ZzLeaf extends ZzC { void l() }\nservice ZzA extends ZzB { void m() }\nservice ZzB extends ZzC { void n() }\nservice ZzC extends ZzA { void o() }",
		)},
		// the cycle lives in an included file, the tail in the root (includes form
		// a DAG, so a cycle itself cannot span files)
		{"extends_tail_into_cycle", true, all, builder{2, func(b baseProg, k int) (map[string]string, string, string) {
			f := clone(b)
			if k%2 == 0 {
				f["zz_cyc.frugal"] = "service ZzA extends ZzB { void m() }\nservice ZzB extends ZzA { void n() }\n"
			} else {
				f["zz_cyc.frugal"] = "service ZzLeaf extends ZzA { void l() }\nservice ZzA extends ZzB { void m() }\nservice ZzB extends ZzA { void n() }\n"
			}
			f[b.root] = "include \"zz_cyc.frugal\"\n" + f[b.root] + "\nservice ZzRoot extends zz_cyc.ZzA { void r() }\n"
			return f, b.root, "cycle inside an include, tail in the root"
		}}},
		{"unknown_extends", true, all, appendTo(
			"service ZzA extends NoSuchServiceZz { void m() }",
			"service ZzA extends nosuchinclude.Base { void m() }",
		)},
		{"duplicate_names", false, all, appendTo(
			"struct ZzD { 1: i32 a }\nstruct ZzD { 1: i32 b }",
			"enum ZzD { A, A }",
			"enum ZzD { A = 1, B = 1 }",
			"struct ZzD { 1: i32 a, 2: i32 a }",
			"service ZzD { void m(), void m() }",
			"service ZzD { void m() }\nservice ZzD { void n() }",
			"const i32 ZZ_D = 1\nconst i32 ZZ_D = 2",
			"typedef i32 ZzD\nstruct ZzD { 1: i32 a }",
			"struct ZzP { 1: i32 a }\nscope ZzD { Op: ZzP }\nscope ZzD { Op: ZzP }",
			"struct ZzP { 1: i32 a }\nscope ZzD { Op: ZzP, Op: ZzP }",
			"service ZzD { void m(1: i32 a, 2: i32 a) }",
			"exception ZzE { 1: string m }\nservice ZzD { void m() throws (1: ZzE e, 1: ZzE f) }",
		)},
		{"numeric_extremes", false, all, appendTo(
			"struct ZzN { 99999999999999999999999: i32 a }",
			"struct ZzN { -1: i32 a }",
			"struct ZzN { 0: i32 a }",
			"enum ZzN { A = 99999999999999999999999 }",
			"enum ZzN { A = -99999999999 }",
			"const i32 ZZ_N = 99999999999999999999999999999999999999",
			"const double ZZ_N = 1e99999",
			"const byte ZZ_N = 4096",
		)},
		{"mistyped_constant_value", false, all, appendTo(
			"struct ZzN { 1: i32 a = \"text\" }",
			"const list<i32> ZZ_N = {\"a\": 1}",
			"const map<string,i32> ZZ_N = [1, 2]",
			"const i32 ZZ_N = [1]",
			"const string ZZ_N = 5",
			"const bool ZZ_N = \"yes\"",
			"struct ZzP { 1: i32 a }\nconst ZzP ZZ_N = 7",
			"struct ZzP { 1: i32 a }\nconst ZzP ZZ_N = {\"nosuchfield\": 7}",
			"enum ZzE { A }\nconst ZzE ZZ_N = \"A\"",
			"enum ZzE { A }\nconst ZzE ZZ_N = 99",
		)},
		{"unresolved_constant_reference", false, all, appendTo(
			"const i32 ZZ_N = ZZ_N",
			"const i32 ZZ_N = NoSuchConstZz",
			"enum ZzE { A }\nconst ZzE ZZ_N = ZzE.NOPE",
			"struct ZzN { 1: i32 a = NoSuchConstZz }",
			"const list<i32> ZZ_N = [NoSuchConstZz]",
			"const i32 ZZ_A = ZZ_B\nconst i32 ZZ_B = ZZ_A",
		)},
		{"odd_but_maybe_valid", false, all, appendTo(
			"struct ZzEmpty {}",
			"service ZzEmpty {}",
			"enum ZzEmpty {}",
			"union ZzEmpty {}",
			"struct ZzP { 1: i32 a }\nscope ZzEmpty {}",
			"service ZzO { oneway i32 m() }",
			"exception ZzE { 1: string m }\nservice ZzO { oneway void m() throws (1: ZzE e) }",
			"struct ZzO { 1: required optional i32 a }",
			"struct ZzO { 1: map<list<i32>,set<map<string,string>>> a }",
			"struct ZzO { 1: void a }",
			"struct ZzP { 1: i32 a }\nscope ZzO prefix {a}.{a}.{} { Op: ZzP }",
			"struct ZzP { 1: i32 a }\nscope ZzO prefix {unclosed { Op: ZzP }",
			"namespace * a..b",
			"namespace nosuchlang x",
		)},
		{"nesting_depth_150", false, nonJSON, appendTo(deep(150))},
	}
	// quick: every variant once per target that can matter (input rejected by
	// the validation stage: json + one rotating target; input that reaches the
	// generators: every listed target); thorough: every variant x every listed
	// target on several base programs
	rounds := 1
	if thorough {
		rounds = 6
	}
	for _, s := range sem {
		cyclic := strings.HasPrefix(s.class, "cyclic_typedef") // each case costs a 1 GB stack on the pinned tree
		for round := 0; round < rounds; round++ {
			for k := 0; k < s.n; k++ {
				tgts := s.targets
				if !thorough && (s.invalid || cyclic) && len(s.targets) > 2 {
					tgts = []string{s.targets[0], s.targets[1+(k+round)%(len(s.targets)-1)]}
				}
				if thorough && cyclic && round > 0 {
					tgts = []string{s.targets[(k+round)%len(s.targets)]}
				}
				for _, t := range tgts {
					files, root, note := s.build(pick(), k)
					add(&negCase{Class: s.class, Files: files, Root: root, Target: t, Invalid: s.invalid, Note: note})
				}
			}
		}
	}

	// 3. fixed odd inputs (each once per listed target)
	fixed := []struct {
		class   string
		text    string
		invalid bool
		targets []string
	}{
		{"empty_file", "", false, all},
		{"whitespace_only", " \n\t\r\n ", false, all},
		{"comment_only", "// nothing\n/* at all */\n# here\n", false, all},
		{"megabyte_of_open_brace", strings.Repeat("{", 1<<20), true, []string{"json", "go"}},
		{"megabyte_of_open_paren", strings.Repeat("(", 1<<20), true, []string{"json"}},
		{"megabyte_of_open_angle", "struct S { 1: " + strings.Repeat("list<", 1<<18), true, []string{"json"}},
		{"megabyte_of_quote", strings.Repeat("\"", 1<<20|1), true, []string{"json"}},
		{"nesting_depth_1000", "struct S { 1: " + strings.Repeat("list<", 1000) + "i32" + strings.Repeat(">", 1000) + " f }\n", false, []string{"json", "html"}},
		{"const_nesting_depth_1000", "const list<i32> C = " + strings.Repeat("[", 1000) + "1" + strings.Repeat("]", 1000) + "\n", false, all},
		{"const_map_nesting_depth_1000", "const map<string,i32> C = " + strings.Repeat("{\"a\": ", 1000) + "1" + strings.Repeat("}", 1000) + "\n", false, all},
		{"very_long_identifier", "struct " + strings.Repeat("A", 20000) + " { 1: i32 " + strings.Repeat("b", 20000) + " }\nservice " + strings.Repeat("S", 10000) + " { void " + strings.Repeat("m", 10000) + "() }\n", false, all},
		{"very_long_string_literal", "const string S = \"" + strings.Repeat("x", 1<<20) + "\"\n", false, all},
		{"many_fields", func() string {
			var b strings.Builder
			b.WriteString("struct Wide {\n")
			for i := 1; i <= 600; i++ {
				fmt.Fprintf(&b, " %d: i32 f%d,\n", i, i)
			}
			b.WriteString("}\n")
			return b.String()
		}(), false, all},
		{"nul_bytes", "struct S {\x00 1: i32 a }\n", true, all},
		{"utf8_bom", "\xef\xbb\xbfstruct S { 1: i32 a }\n", false, all},
		{"invalid_utf8", "struct S { 1: i32 a } // \xff\xfe\xc0\n const string X = \"\xc3\x28\"\n", false, all},
	}
	for _, f := range fixed {
		for _, t := range f.targets {
			add(&negCase{Class: f.class, Files: map[string]string{"odd.frugal": f.text}, Root: "odd.frugal", Target: t, Invalid: f.invalid})
		}
	}
	// file-level oddities
	add(&negCase{Class: "bad_file_name", Files: map[string]string{"a.b.frugal": "struct S { 1: i32 a }\n"}, Root: "a.b.frugal"})
	add(&negCase{Class: "bad_file_name", Files: map[string]string{"noext": "struct S { 1: i32 a }\n"}, Root: "noext"})
	add(&negCase{Class: "missing_root_file", Files: map[string]string{"other.frugal": ""}, Root: "not_there.frugal", Invalid: true})
	add(&negCase{Class: "include_bad_extension", Files: map[string]string{"r.frugal": "include \"x.txt\"\n", "x.txt": ""}, Root: "r.frugal", Invalid: true})

	// 3b. one invocation, several files: `frugal -gen X a.frugal b.frugal ...`
	// mixing invalid and valid inputs in every order; any invalid input must
	// give a non-zero exit status, all valid inputs exit 0 and output for each
	{
		good := map[string]string{
			"good_one.frugal":   "struct GoodOne { 1: i32 a }\n",
			"good_two.frugal":   "enum GoodTwo { A, B }\nstruct GoodTwoS { 1: GoodTwo e }\n",
			"good_three.frugal": "struct GoodThree { 1: string s }\nservice GoodThreeSvc { void ping() }\n",
		}
		bad := map[string]string{
			"bad_unknown_type.frugal": "struct BadOne { 1: NoSuchTypeZz a }\n",
			"bad_syntax.frugal":       "struct BadTwo { 1: i32 a\n",
			"bad_dup_id.frugal":       "struct BadThree { 1: i32 a, 1: i32 b }\n",
			"bad_garbage.frugal":      "\xfe\x00\x01 not idl at all {{{\n",
		}
		files := map[string]string{}
		for n, t := range good {
			files[n] = t
		}
		for n, t := range bad {
			files[n] = t
		}
		g1, g2, g3 := "good_one.frugal", "good_two.frugal", "good_three.frugal"
		orders := [][]string{
			{"bad_unknown_type.frugal", g1}, {g1, "bad_unknown_type.frugal"},
			{"bad_syntax.frugal", g1}, {g1, "bad_syntax.frugal"},
			{"bad_dup_id.frugal", g2}, {g2, "bad_dup_id.frugal"},
			{"bad_garbage.frugal", g3}, {g3, "bad_garbage.frugal"},
			{"zz_not_there.frugal", g1}, {g1, "zz_not_there.frugal"},
			{"bad_unknown_type.frugal", "bad_syntax.frugal", g1}, {"bad_syntax.frugal", "bad_garbage.frugal", g2, g3},
			{g1, "bad_dup_id.frugal", g2}, {g1, g2, "bad_unknown_type.frugal"}, {g1, "bad_syntax.frugal", g2, "bad_dup_id.frugal", g3},
			{"bad_unknown_type.frugal", "bad_syntax.frugal"},
		}
		for oi, o := range orders {
			tgts := all
			if !thorough {
				tgts = []string{all[oi%len(all)], all[(oi+3)%len(all)]}
			}
			for _, t := range tgts {
				add(&negCase{Class: "multi_file_with_invalid_input", Files: files, Root: o[0], Roots: o, Target: t, Invalid: true, Note: "file arguments in order: " + strings.Join(o, " ")})
			}
		}
		expect := func(t string, names []string) []string {
			var out []string
			for _, n := range names {
				b := strings.TrimSuffix(n, ".frugal")
				switch strings.SplitN(t, ":", 2)[0] {
				case "go":
					out = append(out, b+"/f_types.go")
				case "py":
					out = append(out, b+"/ttypes.py")
				case "dart":
					out = append(out, b+"/pubspec.yaml")
				case "html":
					out = append(out, b+".html")
				case "json":
					out = []string{"frugal.json"}
				case "java":
					out = append(out, map[string]string{"good_one": "GoodOne.java", "good_two": "GoodTwoS.java", "good_three": "GoodThree.java"}[b])
				}
			}
			return out
		}
		for _, o := range [][]string{{g1, g2}, {g2, g1}, {g1, g2, g3}, {g3, g1, g2}} {
			for _, t := range all {
				add(&negCase{Class: "multi_file_all_valid", Files: good, Root: o[0], Roots: o, Target: t, MustSucceed: true, ExpectFiles: expect(t, o), Note: "file arguments in order: " + strings.Join(o, " ")})
			}
		}
	}

	// 4. garbage
	ngarb := 60
	if thorough {
		ngarb = 1500
	}
	for k := 0; k < ngarb; k++ {
		l := 16 + rng.Intn(4096)
		b := make([]byte, l)
		rng.Read(b)
		b[0] = 0xfe // never whitespace / a comment / valid text
		add(&negCase{Class: "binary_garbage", Files: map[string]string{"g.frugal": string(b)}, Root: "g.frugal", Invalid: true, Target: all[k%len(all)]})
	}

	// 5. the rest of the budget: token and byte mutations of rendered valid programs
	ops := []string{"token_delete", "token_duplicate", "token_swap", "byte_flip", "byte_insert", "truncate_random", "line_delete", "splice_two_programs"}
	for k := 0; len(cases) < n; k++ {
		b := pick()
		f := clone(b)
		name := b.root
		if len(f) > 1 && rng.Intn(5) == 0 {
			for fn := range b.files {
				if fn != b.root && (name == b.root || fn < name) {
					name = fn
				}
			}
		}
		text := f[name]
		op := ops[k%len(ops)]
		toks := tokenise(text)
		idx := nonSpace(toks)
		if len(idx) < 2 || len(text) < 2 {
			continue
		}
		switch op {
		case "token_delete":
			i := idx[rng.Intn(len(idx))]
			toks[i].s = ""
			text = joinToks(toks)
		case "token_duplicate":
			i := idx[rng.Intn(len(idx))]
			toks[i].s = toks[i].s + " " + toks[i].s
			text = joinToks(toks)
		case "token_swap":
			i, j := idx[rng.Intn(len(idx))], idx[rng.Intn(len(idx))]
			if rng.Intn(2) == 0 { // adjacent
				p := rng.Intn(len(idx) - 1)
				i, j = idx[p], idx[p+1]
			}
			toks[i].s, toks[j].s = toks[j].s, toks[i].s
			text = joinToks(toks)
		case "byte_flip":
			bs := []byte(text)
			for m, nm := 0, 1+rng.Intn(3); m < nm; m++ {
				p := rng.Intn(len(bs))
				if rng.Intn(2) == 0 {
					bs[p] ^= 1 << uint(rng.Intn(8))
				} else {
					bs[p] = byte(rng.Intn(256))
				}
			}
			text = string(bs)
		case "byte_insert":
			p := rng.Intn(len(text))
			ins := []string{"{", "}", "(", ")", "<", ">", "\"", "'", ",", ";", ":", "=", "/*", "*/", "//", "#", "\x00", ".", "-", "[", "]"}[rng.Intn(21)]
			text = text[:p] + ins + text[p:]
		case "truncate_random":
			text = text[:rng.Intn(len(text))]
		case "line_delete":
			lines := strings.Split(text, "\n")
			p := rng.Intn(len(lines))
			lines = append(lines[:p], lines[p+1:]...)
			text = strings.Join(lines, "\n")
		case "splice_two_programs":
			o := pick()
			ot := o.files[o.root]
			text = text[:rng.Intn(len(text))] + ot[rng.Intn(len(ot)):]
		}
		f[name] = text
		tgt := "json"
		if k%4 == 3 {
			tgt = nonJSON[(k/4)%len(nonJSON)]
		}
		add(&negCase{Class: op, Files: f, Root: b.root, Target: tgt})
	}
	return cases
}

type negStats struct {
	mu      sync.Mutex
	byClass map[string]int
	exits   map[string]map[string]int // class -> exit status -> n
	wallMax time.Duration
	wall    map[string]float64 // class -> summed run time (s)
}

// runNegative executes one negative input and applies the oracle.
func (c *c11) runNegative(nc *negCase, st *negStats) {
	run := c.run
	dir := filepath.Join(c.base, "neg", fmt.Sprint(nc.I))
	os.MkdirAll(dir, 0o755)
	defer os.RemoveAll(dir)
	for n, s := range nc.Files {
		p := filepath.Join(dir, n)
		os.MkdirAll(filepath.Dir(p), 0o755)
		os.WriteFile(p, []byte(s), 0o644)
	}
	out := filepath.Join(dir, "zz_out")
	roots := nc.Roots
	if roots == nil {
		roots = []string{nc.Root}
	}
	args := append([]string{"-gen", nc.Target, "-out", out}, roots...)
	r := c.runCompiler(nc.Class, dir, 20*time.Second, args...)
	run.Eval(1)
	text := r.Stdout + r.Stderr
	exit := fmt.Sprint(r.ExitCode)
	if r.TimedOut {
		exit = "watchdog"
	}
	st.mu.Lock()
	st.byClass[nc.Class]++
	if st.exits[nc.Class] == nil {
		st.exits[nc.Class] = map[string]int{}
	}
	st.exits[nc.Class][exit]++
	st.wall[nc.Class] += r.Wall.Seconds()
	if r.Wall > st.wallMax {
		st.wallMax = r.Wall
	}
	st.mu.Unlock()
	run.Distinct(fmt.Sprintf("neg %s -> %s exit=%s", nc.Class, strings.SplitN(nc.Target, ":", 2)[0], exit))

	witness := func() map[string]interface{} {
		files := map[string]interface{}{}
		for n, s := range nc.Files {
			if len(s) > 6000 {
				files[n] = map[string]interface{}{"length": len(s), "head_hex": hex.EncodeToString([]byte(s[:200])), "note": "long input: regenerate from class " + nc.Class + " (see genNegatives)"}
			} else {
				files[n] = map[string]interface{}{"hex": hex.EncodeToString([]byte(s)), "text": s}
			}
		}
		return map[string]interface{}{"class": nc.Class, "input_index": nc.I, "files": files, "root_file": nc.Root, "args": append([]string{"-gen", nc.Target, "-out", "zz_out"}, roots...), "note": nc.Note,
			"exit": exit, "output": clip(reAnsi.ReplaceAllString(text, ""), 1500)}
	}
	kind := crashKind(text, r.ExitCode, r.Signaled)
	sigClass := nc.Class
	if nc.Sub != "" {
		sigClass += ":" + nc.Sub
	}
	switch {
	case r.TimedOut:
		c.violation("C11:hang:"+nc.Class, fmt.Sprintf("the compiler did not terminate within 20 s, nor within 120 s when run again alone (-gen %s)", nc.Target), witness())
	case kind != "":
		c.mu.Lock()
		c.crashSeen[kind+" "+topFrame(text)]++
		c.mu.Unlock()
		c.violation("C11:crash:"+kind+":"+nc.Class, fmt.Sprintf("Go runtime failure instead of a diagnostic (-gen %s, exit %s, top compiler frame %s): %s", nc.Target, exit, topFrame(text), clip(firstLines(text, 2), 200)), witness())
	case nc.MustSucceed && r.ExitCode != 0:
		c.violation("C11:valid-input-rejected:"+nc.Class, fmt.Sprintf("every file of the invocation is valid but the exit status is %s (-gen %s; %s): %s", exit, nc.Target, nc.Note, clip(firstLines(text, 2), 200)), witness())
	case nc.MustSucceed:
		for _, f := range nc.ExpectFiles {
			if _, err := os.Stat(filepath.Join(out, f)); err != nil {
				c.violation("C11:valid-input-without-output:"+nc.Class, fmt.Sprintf("exit status 0 but %s was not emitted (-gen %s; %s)", f, nc.Target, nc.Note), witness())
				break
			}
		}
	case r.ExitCode == 0 && nc.Invalid:
		c.violation("C11:invalid-input-accepted:"+sigClass, fmt.Sprintf("input that is invalid by construction compiled with exit status 0 (-gen %s; %s)", nc.Target, nc.Note), witness())
	case r.ExitCode == 0 && nc.Target == "json":
		b, err := os.ReadFile(filepath.Join(out, "frugal.json"))
		var v interface{}
		if err == nil {
			err = json.Unmarshal(b, &v)
		}
		if err != nil {
			c.violation("C11:accepted-with-broken-output:"+nc.Class, "exit status 0 but the emitted frugal.json is not loadable: "+err.Error(), witness())
		}
	case r.ExitCode != 0 && strings.TrimSpace(text) == "":
		c.violation("C11:silent-failure:"+nc.Class, fmt.Sprintf("non-zero exit status %s without any error message (-gen %s)", exit, nc.Target), witness())
	}
}
