package main

import (
	"strings"

	"verif/idl"
)

// optSet is one option set of a target.
type optSet struct {
	Label string // "" = plain
	Opts  string // comma separated generator options ({SUB} = the harness sub directory of the compilation)
	Extra []string
	Bare  bool // go only: package_prefix= (empty): compiled outside emit.Harness.Gen, built as dot-less modules
}

// goBareSet is the boundary value "package_prefix=" (present but empty): the
// emitted packages import each other by their bare names.
var goBareSet = optSet{Label: "package_prefix=(empty)", Opts: "package_prefix=", Bare: true}

type target struct {
	Name string // go, java, dart, py, py:asyncio, py:tornado, json, html
	Sets []optSet
}

func (t target) gen(o optSet) string {
	if o.Opts == "" {
		return t.Name
	}
	if strings.Contains(t.Name, ":") {
		return t.Name + "," + o.Opts
	}
	return t.Name + ":" + o.Opts
}

// targets lists every target with its option sets (names read from
// compiler/generator/generator.go).  The Go target is always compiled through
// emit.Harness.Gen, which adds package_prefix=vh/gen/<sub>/ and -r so that the
// emitted packages can be type-checked in the harness module.  Excluded: java
// generated_annotations=use (dated), use_vendor (needs vendor annotations and a
// vendored tree), thrift_import / frugal_import (would point the emitted Go at
// packages that do not exist in the sandbox).
func targets() []target {
	py := []optSet{{}, {Label: "package_prefix", Opts: "package_prefix=genpfx."}, {Label: "delim", Extra: []string{"-delim", "/"}}}
	return []target{
		{"go", []optSet{{},
			{Label: "async", Opts: "async"},
			{Label: "slim", Opts: "slim"},
			{Label: "suppress_deprecated_logging", Opts: "suppress_deprecated_logging"},
			{Label: "omit_server_service_generation", Opts: "omit_server_service_generation"},
			// boundary: the prefix without the trailing slash the compiler must add
			// (emit.Harness.Gen passes it with the slash; a later option wins)
			{Label: "package_prefix-without-trailing-slash", Opts: "package_prefix=vh/gen/{SUB}"},
			{Label: "async+slim+suppress_deprecated_logging", Opts: "async,slim,suppress_deprecated_logging"},
			{Label: "delim", Extra: []string{"-delim", "-"}},
		}},
		{"java", []optSet{{},
			{Label: "async", Opts: "async"},
			{Label: "boxed_primitives", Opts: "boxed_primitives"},
			{Label: "generated_annotations=undated", Opts: "generated_annotations=undated"},
			{Label: "generated_annotations=suppress", Opts: "generated_annotations=suppress"},
			{Label: "default_unsupported", Opts: "default_unsupported"},
			{Label: "suppress_deprecated_logging", Opts: "suppress_deprecated_logging"},
			{Label: "async+boxed_primitives+default_unsupported+undated", Opts: "async,boxed_primitives,default_unsupported,generated_annotations=undated"},
		}},
		{"dart", []optSet{{},
			{Label: "use_enums", Opts: "use_enums"},
			{Label: "use_int64", Opts: "use_int64"},
			{Label: "use_null_for_unset", Opts: "use_null_for_unset"},
			{Label: "library_prefix", Opts: "library_prefix=my_parent_lib.src.gen"},
			{Label: "use_enums+use_int64+use_null_for_unset", Opts: "use_enums,use_int64,use_null_for_unset"},
		}},
		{"py", py},
		{"py:asyncio", py},
		{"py:tornado", py},
		{"json", []optSet{{}, {Label: "indent", Opts: "indent"}}},
		{"html", []optSet{{}, {Label: "standalone", Opts: "standalone"}}},
	}
}

// stressClass is one legal-but-unusual feature class run in its own pool:
// CoreConfig plus exactly one flag.  Tag is the feature tag the generator sets
// when the construct is really present in a program.
type stressClass struct {
	Name string
	Tag  string
	Set  func(*idl.Config)
}

func stressClasses() []stressClass {
	return []stressClass{
		{"allcaps_snake_type_names", "type_name_allcaps_snake", func(c *idl.Config) { c.AllCapsSnakeTypeNames = true }},
		{"odd_service_names", "service_name_not_upper_camel", func(c *idl.Config) { c.OddServiceNames = true }},
		{"target_keyword_names", "target_keyword_names", func(c *idl.Config) { c.TargetKeywordNames = true }},
		{"generator_internal_names", "generator_internal_names", func(c *idl.Config) { c.GeneratorInternalNames = true }},
		{"case_twin_fields", "case_twin_fields", func(c *idl.Config) { c.CaseTwinFields = true }},
		{"generator_derived_names", "generator_derived_names", func(c *idl.Config) { c.GeneratorDerivedNames = true }},
		{"typedef_of_enum", "typedef_of_enum", func(c *idl.Config) { c.TypedefOfEnum = true }},
		{"typedef_of_struct", "typedef_of_struct", func(c *idl.Config) { c.TypedefOfStruct = true }},
		{"transitive_typedefs", "transitive_typedef", func(c *idl.Config) { c.TransitiveTypedefs = true }},
		{"throws_same_type_twice", "throws_same_type_twice", func(c *idl.Config) { c.ThrowsSameTypeTwice = true }},
		{"binary_keys", "binary_key", func(c *idl.Config) { c.BinaryKeys = true }},
		{"method_returns_typedef_enum", "method_returns_typedef_enum", func(c *idl.Config) { c.MethodReturnsTypedefEnum = true }},
		{"i8", "i8", func(c *idl.Config) { c.I8Type = true }},
		{"negative_enum_values", "negative_enum_value", func(c *idl.Config) { c.NegativeEnumValues = true }},
		{"const_map_non_string_keys", "const_map_non_string_key", func(c *idl.Config) { c.ConstMapNonStringKeys = true }},
		{"default_from_named_constant", "default_from_named_constant", func(c *idl.Config) { c.DefaultsFromConstants = true }},
		{"enum_non_ascending_explicit", "enum_non_ascending_explicit", func(c *idl.Config) { c.EnumNonAscending = true }},
	}
}
