// Command c11 monitors the totality of the frugal compiler: every valid IDL
// program compiles for every target / option set into well-formed source
// (positive side), every other text ends in a diagnostic and a non-zero exit
// status, never in a Go runtime failure or a hang (negative side).
package main

import (
	"embed"
	"encoding/json"
	"fmt"
	"io/fs"
	"os"
	"path"
	"path/filepath"
	"sort"
	"strings"
	"sync"
	"time"

	"verif/emit"
	"verif/ev"
	"verif/idl"
)

//go:embed witnesses
var witnessFS embed.FS

func main() { os.Exit(runC11(ev.ArgTier())) }

type witnessMeta struct {
	Class   string `json:"class"`
	Kind    string `json:"kind"` // positive | negative
	Root    string `json:"root"`
	Invalid bool   `json:"invalid"` // negative: invalid by construction
	Note    string `json:"note"`
}

type witness struct {
	Name  string
	Meta  witnessMeta
	Files map[string]string
}

func loadWitnesses() ([]*witness, error) {
	ents, err := witnessFS.ReadDir("witnesses")
	if err != nil {
		return nil, err
	}
	var out []*witness
	for _, e := range ents {
		if !e.IsDir() {
			continue
		}
		w := &witness{Name: e.Name(), Files: map[string]string{}}
		dir := path.Join("witnesses", e.Name())
		err := fs.WalkDir(witnessFS, dir, func(p string, d fs.DirEntry, err error) error {
			if err != nil || d.IsDir() {
				return err
			}
			b, err := witnessFS.ReadFile(p)
			if err != nil {
				return err
			}
			rel := strings.TrimPrefix(p, dir+"/")
			if rel == "meta.json" {
				return json.Unmarshal(b, &w.Meta)
			}
			w.Files[rel] = string(b)
			return nil
		})
		if err != nil {
			return nil, fmt.Errorf("witness %s: %v", e.Name(), err)
		}
		if w.Meta.Class == "" || w.Meta.Root == "" || w.Files[w.Meta.Root] == "" && w.Meta.Kind != "negative" {
			return nil, fmt.Errorf("witness %s: incomplete meta.json", e.Name())
		}
		out = append(out, w)
	}
	sort.Slice(out, func(i, j int) bool { return out[i].Name < out[j].Name })
	return out, nil
}

var reIdent = reWord

func runC11(tier string) int {
	run := ev.New("C11", tier, "exploration")
	run.Rule("positive side: random valid multi-file programs (idl.Generate: core pool = idl.CoreConfig; in the thorough tier one pool per stress class = CoreConfig + exactly one flag) and the hand-written witness programs of cmd/c11/witnesses, each compiled for json first (parse/validation gate) and then for the selected (target, option set) pairs; every emitted file goes to its language oracle (go build + go vet against lib/go; CPython 2.7 / 3 compile; javac parser; html.parser tag balance; json.loads + documentation/json.md shape; Dart lexical balance only); regeneration pool (regen.go): the -out directory already holds the output of an earlier run -- an earlier revision of the program (larger, smaller, declarations renamed to shorter names, own services / scopes removed) or another option set / Python flavour -- and the second compilation into the same directory must exit 0 and every file it writes (files of the earlier run carry a sentinel modification time; the ones whose time changed were written by the judged run) goes to the same language oracles (Go: go/parser only, the package directory also holds stale files).  negative side: truncation at every offset of small files, token delete/duplicate/swap, byte flips/inserts, line deletion, splices, invalid-by-construction programs (unknown type, duplicate field id, missing/circular/self include, unbalanced braces, unterminated literals, cyclic typedefs, cyclic extends, garbage bytes), duplicate names, numeric extremes, nesting depth 150/1000, empty file, 1 MiB of one bracket, huge identifiers, near-miss identifiers (nearmiss.go: every position where the grammar demands an identifier, scope prefix variables included, filled with a leading digit / digits only / nothing / punctuation only / punctuation at the start, inside, at the end: invalid by construction for every target; the same position filled with a proper identifier must compile); oracle = no Go runtime failure signature / exit status 2 / signal, termination within a 20 s watchdog (retried once), exit 0 only with loadable json and never for invalid-by-construction inputs.  distinct = (target, option set, pool, class) on the positive side and (class, target, exit status) on the negative side")
	run.Assume("go build/vet (Go 1.23), CPython 2.7.18 and 3.11, javac 17's parser and Python's html.parser are correct judges of their languages")
	run.Assume("Dart: no toolchain in the sandbox, lexical balance check only; Java: parse only, no symbol resolution (runtime jars absent)")
	run.Assume("a diagnostic printed from an explicit panic(\"...\") recovered by main.go is a diagnostic, not a crash")

	bin, err := emit.FrugalBin()
	if err != nil {
		run.Inconclusive(err.Error())
		return run.Finish()
	}
	c := &c11{run: run, bin: bin, base: filepath.Join(ev.ScratchDir(), "c11"), tgts: targets(), ext: &extOracles{},
		hangConfirmed: map[string]bool{}, sigSeen: map[string]int{}, crashSeen: map[string]int{}, goSubs: map[string]*comp{}, outIndex: map[string]*comp{}}
	os.MkdirAll(c.base, 0o755)

	witnesses, err := loadWitnesses()
	if err != nil {
		run.Inconclusive("witness list unreadable: " + err.Error())
		return run.Finish()
	}

	// ------------------------------------------------------------- positive side
	var units []*unit
	featVectors := map[string]bool{}
	addProgram := func(id, pool, class, tag string, p *idl.Program, style idl.Style) {
		u := newUnit(len(units), id, pool, class, tag, p, style)
		units = append(units, u)
		featVectors[strings.Join(u.Features, ",")] = true
		if len(units) <= 2 {
			run.Sample(map[string]interface{}{"program": id, "features": u.Features, "root_text_head": clip(u.Src[u.Root], 400)})
		}
	}
	ncore, nstress, setsMin := 12, 0, 1
	if run.Thorough() {
		ncore, nstress, setsMin = 150, 10, 3
	}
	for i := 0; i < ncore; i++ {
		rng := run.Rand(fmt.Sprintf("c11-core-%d", i))
		p := idl.Generate(rng, idl.CoreConfig())
		style := idl.DefaultStyle()
		if i%3 == 2 {
			style = idl.RandomStyle(rng)
		}
		addProgram(fmt.Sprintf("core-%d", i), "core", "", "", p, style)
	}
	// quick tier: many more core programs for the go target only.  Emitted Go
	// is the one output that is fully type-checked, and batched go builds are
	// cheap: one harness module per 40 programs.
	ngo := 0
	if !run.Thorough() {
		ngo = 100
	}
	for i := 0; i < ngo; i++ {
		rng := run.Rand(fmt.Sprintf("c11-core-go-%d", i))
		cfg := idl.CoreConfig()
		cfg.MinFiles = 2 // cross-file references are where type resolution goes wrong
		p := idl.Generate(rng, cfg)
		addProgram(fmt.Sprintf("core-go-%d", i), "core-go", "", "", p, idl.DefaultStyle())
	}
	run.Set("programs_core_go_target_only", ngo)
	classPresent := map[string]int{}
	for _, sc := range stressClasses() {
		for i := 0; i < nstress; i++ {
			rng := run.Rand(fmt.Sprintf("c11-stress-%s-%d", sc.Name, i))
			cfg := idl.CoreConfig()
			sc.Set(&cfg)
			p := idl.Generate(rng, cfg)
			addProgram(fmt.Sprintf("stress:%s-%d", sc.Name, i), "stress", sc.Name, sc.Tag, p, idl.DefaultStyle())
			if units[len(units)-1].has(sc.Tag) {
				classPresent[sc.Name]++
			}
		}
	}
	nPosWitness := 0
	for _, w := range witnesses {
		if w.Meta.Kind != "positive" {
			continue
		}
		nPosWitness++
		u := &unit{Idx: len(units), ID: "witness:" + w.Name, Pool: "witness", Class: w.Meta.Class, Src: w.Files, Root: w.Meta.Root, Features: []string{"witness:" + w.Meta.Class}, Names: map[string]bool{}}
		units = append(units, u)
	}
	// regeneration pool: -out already holds the output of an earlier run (regen.go)
	nregen := 2
	if run.Thorough() {
		nregen = 10
	}
	regen := regenUnits(run.Rand, nregen, len(units))
	units = append(units, regen...)
	run.Set("programs_regeneration(base programs x kinds)", len(regen))
	run.Set("programs_core", ncore)
	run.Set("programs_per_stress_class", nstress)
	run.Set("stress_programs_that_contain_their_class", classPresent)
	run.Set("witness_programs_positive", nPosWitness)
	run.Set("distinct_feature_vectors", len(featVectors))

	// select (target, option set) pairs per unit; json/plain first as the gate
	nBare, maxBare := 0, 5
	if run.Thorough() {
		maxBare = 16
	}
	goBatch := 14
	if !run.Thorough() {
		goBatch = 40
	}
	unitComps := map[*unit][]*comp{}
	for _, u := range units {
		if err := c.writeUnit(u); err != nil {
			run.Inconclusive("cannot write sources: " + err.Error())
			return run.Finish()
		}
		if u.Pool == "regen" {
			if err := c.writeEarlier(u); err != nil {
				run.Inconclusive("cannot write sources: " + err.Error())
				return run.Finish()
			}
			c.addRegenComps(u, unitComps, run.Thorough(), int(run.Seed%1000))
			continue
		}
		var h *emit.Harness
		add := func(t target, s optSet) {
			cp := &comp{ID: len(c.comps), U: u, T: t, S: s}
			if t.Name == "go" && !s.Bare {
				if h == nil {
					hi := u.Idx / goBatch
					for len(c.harnesses) <= hi {
						nh, err := emit.NewHarness(fmt.Sprintf("c11go%d", len(c.harnesses)))
						if err != nil {
							run.Inconclusive("cannot create the Go harness module: " + err.Error())
							return
						}
						c.harnesses = append(c.harnesses, nh)
					}
					h = c.harnesses[hi]
				}
				cp.H = h
				cp.GoSub = fmt.Sprintf("c%d", cp.ID)
				c.goSubs[cp.GoSub] = cp
			}
			c.outIndex[fmt.Sprint(cp.ID)] = cp
			c.comps = append(c.comps, cp)
			unitComps[u] = append(unitComps[u], cp)
		}
		var jsonT target
		for _, t := range c.tgts {
			if t.Name == "json" {
				jsonT = t
			}
		}
		add(jsonT, jsonT.Sets[0])
		for ti, t := range c.tgts {
			var sets []optSet
			if u.Pool == "core-go" && t.Name != "go" {
				continue
			}
			switch {
			case u.Pool == "witness":
				// plain and the richest option set of the target
				sets = []optSet{t.Sets[0], t.Sets[len(t.Sets)-1]}
				if t.Name == "go" {
					sets[1] = t.Sets[len(t.Sets)-2] // async+slim+suppress_deprecated_logging
				}
				if strings.HasPrefix(t.Name, "py") {
					sets[1] = t.Sets[1] // package_prefix
				}
			case !run.Thorough():
				sets = []optSet{t.Sets[(u.Idx+ti+int(run.Seed))%len(t.Sets)]}
			default:
				k := setsMin + (u.Idx+ti)%4 // 3..6 option subsets
				if k > len(t.Sets) {
					k = len(t.Sets)
				}
				for j := 0; j < k; j++ {
					sets = append(sets, t.Sets[(u.Idx+ti+j)%len(t.Sets)])
				}
			}
			for _, s := range sets {
				if t.Name == "json" && s.Label == "" {
					continue // the gate
				}
				add(t, s)
			}
			// boundary value package_prefix= (empty) on programs with includes
			if t.Name == "go" && len(u.Src) > 1 && nBare < maxBare && (u.Pool == "core" || u.Pool == "core-go" || u.Pool == "witness" && u.Class == "include_local_container_alias") {
				nBare++
				add(t, goBareSet)
			}
		}
	}
	run.Set("go_empty_package_prefix_compilations", nBare)
	// include-graph shape pool (graph.go): deep layered diamond includes vs chains
	graphDone := c.includeGraphShapes(len(units))
	run.Set("compilation_keys(program,target,options)", len(c.comps))

	tCompile := time.Now()
	uch := make(chan *unit)
	var wg sync.WaitGroup
	for w := 0; w < 16; w++ {
		wg.Add(1)
		go func() {
			defer wg.Done()
			for u := range uch {
				c.compileUnit(u, unitComps[u])
			}
		}()
	}
	for _, u := range units {
		uch <- u
	}
	close(uch)
	wg.Wait()

	graphDone()
	run.Set("phase_s:compilations(incl. include-graph shapes)", time.Since(tCompile).Seconds())

	// the negative side runs while the language oracles judge the emitted files
	var owg sync.WaitGroup
	owg.Add(1)
	tOracles := time.Now()
	go func() {
		defer owg.Done()
		c.oracles()
		run.Set("phase_s:language_oracles(concurrent with the negative side)", time.Since(tOracles).Seconds())
	}()

	// ------------------------------------------------------------- negative side
	nneg := 1500
	if run.Thorough() {
		nneg = 50000
	}
	negs := genNegatives(run.Rand("c11-negative"), nneg, run.Thorough())
	// the negative witnesses: every target
	nNegWitness := 0
	for _, w := range witnesses {
		if w.Meta.Kind != "negative" {
			continue
		}
		nNegWitness++
		for _, t := range c.tgts {
			negs = append(negs, &negCase{I: len(negs), Class: w.Meta.Class, Files: w.Files, Root: w.Meta.Root, Target: t.Name, Invalid: w.Meta.Invalid, Note: "witness " + w.Name})
		}
	}
	// near-miss identifiers in every identifier position (nearmiss.go)
	nNearMiss := 0
	for _, nc := range genNearMisses(int64(run.Seed), run.Thorough()) {
		nc.I = len(negs)
		negs = append(negs, nc)
		nNearMiss++
	}
	run.Set("negative_inputs_identifier_near_miss(incl. controls)", nNearMiss)
	st := &negStats{byClass: map[string]int{}, exits: map[string]map[string]int{}, wall: map[string]float64{}}
	nch := make(chan *negCase)
	var nwg sync.WaitGroup
	for w := 0; w < 16; w++ {
		nwg.Add(1)
		go func() {
			defer nwg.Done()
			for nc := range nch {
				c.runNegative(nc, st)
			}
		}()
	}
	for i, nc := range negs {
		if i < 2 {
			run.Sample(map[string]interface{}{"negative_input": nc.I, "class": nc.Class, "target": nc.Target, "root_text_head": clip(nc.Files[nc.Root], 200)})
		}
		nch <- nc
	}
	close(nch)
	nwg.Wait()
	run.Set("phase_s:negative_side", time.Since(tOracles).Seconds())
	owg.Wait()

	run.Set("negative_inputs", len(negs))
	run.Set("negative_inputs_by_class", st.byClass)
	run.Set("negative_exit_status_by_class", st.exits)
	run.Set("negative_slowest_run_s", st.wallMax.Seconds())
	for k, v := range st.wall {
		st.wall[k] = float64(int(v*10)) / 10
	}
	run.Set("negative_run_time_s_by_class", st.wall)
	run.Set("witness_programs_negative", nNegWitness)
	run.Set("crash_signatures_seen", c.crashSeen)
	run.Set("violation_signatures_seen(incl. known findings)", c.sigSeen)
	run.Set("json_empty_type_descriptors({} for empty structs, accepted)", c.jsonEmpty)
	okc := 0
	for _, cp := range c.comps {
		if cp.OK {
			okc++
		}
	}
	run.Set("compilations_successful", okc)
	os.RemoveAll(c.base)
	for _, h := range c.harnesses {
		os.RemoveAll(h.Dir)
	}
	return run.Finish()
}
