package main

import (
	"bytes"
	"context"
	"encoding/json"
	"fmt"
	"io/fs"
	"os"
	"os/exec"
	"path/filepath"
	"regexp"
	"runtime"
	"sort"
	"strconv"
	"strings"
	"sync"
	"time"

	"verif/emit"
	"verif/ev"
	"verif/idl"
)

// unit is one valid program of the positive side.
type unit struct {
	Idx      int
	ID       string // core-3, stress:typedef_of_enum-2, witness:05-typedef-of-enum
	Pool     string // core | stress | witness
	Class    string // stress class / witness class ("" for core)
	ClassTag string // feature tag that proves the class is present (stress pools)
	Src      map[string]string
	Root     string
	Features []string
	Names    map[string]bool // identifiers declared by the program (for message normalisation)
	Dir      string
	Rejected bool // the parse / validation stage rejected it (json gate)
	// regeneration pool: the earlier revision compiled into the same -out first
	// (nil = the same sources, another option set)
	PrevSrc map[string]string
	// enums (by file base name) whose numbers are pairwise distinct in the
	// model: the compiler must give every member its own number too
	DistinctEnums map[string][]string
}

func (u *unit) has(tag string) bool {
	for _, f := range u.Features {
		if f == tag {
			return true
		}
	}
	return false
}

// comp is one (program, target, option set) compilation.
type comp struct {
	ID     int
	U      *unit
	T      target
	S      optSet
	OutDir string
	GoSub  string
	H      *emit.Harness
	Res    *emit.Result
	OK     bool
	Regen  *regenStep // regeneration history: the earlier run into the same -out (regen.go)
}

func (cp *comp) label() string {
	if cp.S.Label == "" {
		return cp.T.Name
	}
	return cp.T.Name + ":" + cp.S.Label
}

type c11 struct {
	run  *ev.Run
	bin  string
	base string
	tgts []target
	ext  *extOracles

	load          sync.RWMutex // see runCompiler
	hangConfirmed map[string]bool
	mu            sync.Mutex
	sigSeen       map[string]int
	crashSeen     map[string]int
	comps         []*comp
	harnesses     []*emit.Harness
	goSubs        map[string]*comp
	outIndex      map[string]*comp // "<id>" path segment -> comp
	jsonEmpty     int
}

// diagnoses attribute a failure of a program to a feature class by what the
// diagnostic says, but only when the program really carries the feature tag.
// They exist for constructs that the core pool itself generates.
var diagnoses = []struct {
	target string
	re     *regexp.Regexp
	tag    string
	class  string
}{
	{"html", regexp.MustCompile(`non-string type \S+ as a key`), "const_map_non_string_key", "const_map_non_string_keys"},
	// an enum value written where the Go type is a typedef of the enum (constant
	// containers, defaults): the typedef_of_enum defect whichever pool the
	// program belongs to (method_returns_typedef_enum programs carry it too)
	{"go", regexp.MustCompile(`cannot use \S+ \(constant -?\d+ of type \S+\) as \S+ value in (?:map|struct|array or slice) literal`), "typedef_of_enum", "typedef_of_enum"},
}

var (
	rePathTok = regexp.MustCompile(`\S*/\S*`)
	reDigits  = regexp.MustCompile(`\d+`)
	reWord    = regexp.MustCompile(`[A-Za-z_][A-Za-z0-9_]*`)
	reSpaces  = regexp.MustCompile(`\s+`)
	reAnsi    = regexp.MustCompile("\x1b\\[[0-9;]*m")
	reWarning = regexp.MustCompile("(?m)^\x1b\\[33m.*$")
	reIDLFile = regexp.MustCompile(`\S+\.(?:frugal|thrift):?`)
)

// normalise reduces a diagnostic to its class: paths dropped, identifiers of
// the program replaced by X, digits by N.
func normalise(diag string, u *unit) string {
	d := reWarning.ReplaceAllString(diag, "") // warnings printed before the failure
	d = reAnsi.ReplaceAllString(d, "")
	d = strings.ReplaceAll(d, "Failed to generate", "")
	d = reIDLFile.ReplaceAllString(d, "")
	d = rePathTok.ReplaceAllString(d, "")
	d = reWord.ReplaceAllStringFunc(d, func(w string) string {
		if u != nil && (u.Names[w] || u.Names[strings.ToLower(w)]) {
			return "X"
		}
		return w
	})
	d = reDigits.ReplaceAllString(d, "N")
	d = strings.TrimSpace(reSpaces.ReplaceAllString(d, " "))
	d = strings.Trim(d, ": ")
	if len(d) > 70 {
		d = d[:70]
	}
	return d
}

// attribute returns the feature class a failure is booked under.
func attribute(u *unit, tgt, diag string) string {
	if u.Pool == "witness" {
		return u.Class
	}
	for _, d := range diagnoses {
		if d.target == tgt && d.re.MatchString(diag) && u.has(d.tag) {
			return d.class
		}
	}
	if u.Class != "" && u.has(u.ClassTag) {
		return u.Class
	}
	// a stress pool whose own construct was not drawn may still carry another
	// class's construct (method_returns_typedef_enum implies typedef_of_enum)
	for _, sc := range stressClasses() {
		if sc.Name != "const_map_non_string_keys" && u.has(sc.Tag) {
			return sc.Name
		}
	}
	return "core(" + normalise(diag, u) + ")"
}

func (c *c11) violation(sig, what string, witness map[string]interface{}) {
	c.mu.Lock()
	c.sigSeen[sig]++
	c.mu.Unlock()
	c.run.Violation(sig, what, witness)
}

func (c *c11) unitWitness(u *unit) map[string]interface{} {
	return map[string]interface{}{"program": u.ID, "pool": u.Pool, "class": u.Class, "features": u.Features, "root_file": u.Root, "sources": u.Src}
}

// fail reports a positive-side failure of one compilation.
func (c *c11) fail(diagClass string, cp *comp, what, diag, file string) {
	class := attribute(cp.U, cp.T.Name, diag)
	sig := "C11:" + diagClass + ":" + cp.T.Name + ":" + class
	w := c.unitWitness(cp.U)
	w["target"] = cp.T.Name
	w["gen"] = cp.T.gen(cp.S)
	w["extra_args"] = cp.S.Extra
	w["diagnostic"] = clip(reAnsi.ReplaceAllString(diag, ""), 1500)
	if file != "" {
		w["file"] = file
	}
	if st := cp.Regen; st != nil {
		h := map[string]interface{}{"kind": st.Kind, "earlier_run_gen": st.T.gen(st.S), "earlier_run_extra_args": st.S.Extra,
			"note": "run the earlier compilation into an empty -out directory, then the judged one (gen / extra_args / sources) into the same directory"}
		if cp.U.PrevSrc != nil {
			h["earlier_run_sources"] = cp.U.PrevSrc
		} else {
			h["earlier_run_sources"] = "the same sources"
		}
		w["regeneration_history"] = h
		what += " [-out already held the output of " + st.T.gen(st.S) + ", " + st.Kind + "]"
	}
	c.violation(sig, fmt.Sprintf("%s [%s, program %s]: %s", what, cp.label(), cp.U.ID, clip(firstLines(reAnsi.ReplaceAllString(diag, ""), 3), 400)), w)
}

// enumNumbersCollide reads frugal.json and reports an enum of want (file base
// name -> enum names) in which two members share a number.
func enumNumbersCollide(b []byte, want map[string][]string) string {
	var top map[string]struct {
		T map[string]struct {
			E map[string][]string `json:"e"`
		} `json:"t"`
	}
	if len(want) == 0 || json.Unmarshal(b, &top) != nil {
		return ""
	}
	for base, names := range want {
		for _, n := range names {
			for num, members := range top[base].T[n].E {
				if len(members) > 1 {
					sort.Strings(members)
					return fmt.Sprintf("enum %s.%s: members %s all have the number %s", base, n, strings.Join(members, ", "), num)
				}
			}
		}
	}
	return ""
}

func firstLines(s string, n int) string {
	l := strings.Split(strings.TrimSpace(s), "\n")
	if len(l) > n {
		l = l[:n]
	}
	return strings.Join(l, " | ")
}

// programNames collects every identifier a program declares.
func programNames(p *idl.Program) map[string]bool {
	names := map[string]bool{}
	add := func(s string) {
		names[s] = true
		names[strings.ToLower(s)] = true
	}
	for _, f := range p.Files {
		add(f.Base)
		for _, ns := range f.Namespaces {
			for _, part := range strings.FieldsFunc(ns.Value, func(r rune) bool { return r == '.' }) {
				add(part)
			}
		}
		for _, d := range f.Decls {
			add(d.Name())
			switch {
			case d.Enum != nil:
				for _, v := range d.Enum.Values {
					add(v.Name)
				}
			case d.Struct != nil:
				for _, fl := range d.Struct.Fields {
					add(fl.Name)
				}
			case d.Service != nil:
				for _, m := range d.Service.Methods {
					add(m.Name)
					for _, a := range m.Args {
						add(a.Name)
					}
					for _, a := range m.Throws {
						add(a.Name)
					}
				}
			case d.Scope != nil:
				for _, o := range d.Scope.Ops {
					add(o.Name)
				}
				for _, v := range d.Scope.PrefixVars() {
					add(v)
				}
			}
		}
	}
	// words of the diagnostics themselves must survive
	for _, w := range []string{"type", "struct", "for", "found", "expected", "include", "not", "key", "as", "a", "string", "int64", "bool", "float64", "error", "of", "in", "is", "the", "to", "and", "enum", "field", "method", "service", "scope", "x"} {
		delete(names, w)
	}
	return names
}

func newUnit(idx int, id, pool, class, tag string, p *idl.Program, style idl.Style) *unit {
	u := &unit{Idx: idx, ID: id, Pool: pool, Class: class, ClassTag: tag, Src: map[string]string{}, Root: p.Root().FileName(), Features: p.FeatureList(), Names: programNames(p)}
	for _, f := range p.Files {
		u.Src[f.FileName()] = idl.RenderFile(f, style)
	}
	// (programs of the negative_enum_values class are left out: the parser
	// renumbers negative values, a known finding of its own)
	if !u.has("negative_enum_value") {
		u.DistinctEnums = map[string][]string{}
		for _, f := range p.Files {
			for _, e := range f.Enums() {
				seen, distinct := map[int]bool{}, true
				for _, v := range e.Values {
					if seen[v.Value] {
						distinct = false
					}
					seen[v.Value] = true
				}
				if distinct {
					u.DistinctEnums[f.Base] = append(u.DistinctEnums[f.Base], e.Name)
				}
			}
		}
	}
	return u
}

func (c *c11) writeUnit(u *unit) error {
	u.Dir = filepath.Join(c.base, "src", fmt.Sprintf("u%d", u.Idx))
	if err := os.MkdirAll(u.Dir, 0o755); err != nil {
		return err
	}
	for n, s := range u.Src {
		if err := os.WriteFile(filepath.Join(u.Dir, n), []byte(s), 0o644); err != nil {
			return err
		}
	}
	return nil
}

// runCompiler runs the compiler under the watchdog.  On expiry the run is
// repeated once with the machine to itself (every other compiler run of this
// process waits): a run that is merely slow under 16-way load, e.g. a process
// growing a 1 GB stack before the Go runtime aborts it, then shows what it is.
func (c *c11) runCompiler(class, dir string, watchdog time.Duration, args ...string) *emit.Result {
	c.load.RLock()
	r := runLimited(c.bin, dir, watchdog, args...)
	c.load.RUnlock()
	if r.TimedOut {
		// the second attempt decides: alone, and with six times the patience
		// (other checks may be loading the machine); an endless loop is still
		// there after 2 minutes, a slow crash is not.  Once a hang has been
		// confirmed for an input class, further expiries in that class are
		// booked under the same verdict without paying the 2 minutes again.
		c.load.Lock()
		c.mu.Lock()
		confirmed := class != "" && c.hangConfirmed[class]
		c.mu.Unlock()
		if !confirmed {
			c.run.Add("watchdog_retries", 1)
			r = runLimited(c.bin, dir, 6*watchdog, args...)
			if r.TimedOut && class != "" {
				c.mu.Lock()
				c.hangConfirmed[class] = true
				c.mu.Unlock()
			}
		}
		c.load.Unlock()
	}
	return r
}

// addressSpaceLimitKB caps the address space of a compiler child (ulimit -v):
// a runaway recursion then ends as "fatal error: out of memory" within seconds
// instead of eating tens of GB until the watchdog fires (observed: 28 GB in
// 60 s for a typedef cycle through containers, -gen py).  The natural outcome
// of unbounded recursion, "goroutine stack exceeds 1000000000-byte limit",
// still fits (needs < 1.6 GB); no legitimate compilation here needs 1 GB.
const addressSpaceLimitKB = 3000000

// runLimited is emit.Run under the address-space limit.
func runLimited(bin, dir string, watchdog time.Duration, args ...string) *emit.Result {
	ctx, cancel := context.WithTimeout(context.Background(), watchdog)
	defer cancel()
	sh := append([]string{"-c", fmt.Sprintf(`ulimit -v %d 2>/dev/null; exec "$0" "$@"`, addressSpaceLimitKB), bin}, args...)
	cmd := exec.CommandContext(ctx, "/bin/sh", sh...)
	cmd.Dir = dir
	var so, se bytes.Buffer
	cmd.Stdout, cmd.Stderr = &so, &se
	start := time.Now()
	err := cmd.Run()
	r := &emit.Result{Stdout: so.String(), Stderr: se.String(), Wall: time.Since(start)}
	if ctx.Err() == context.DeadlineExceeded {
		r.TimedOut = true
	}
	if err != nil {
		if ee, ok := err.(*exec.ExitError); ok {
			r.ExitCode = ee.ExitCode()
			if r.ExitCode < 0 {
				r.Signaled = true
			}
		} else {
			r.ExitCode = -2
			r.Stderr += "\n" + err.Error()
		}
	}
	return r
}

// compileUnit runs the json gate and then every selected (target, option set).
func (c *c11) compileUnit(u *unit, sel []*comp) {
	run := c.run
	for _, cp := range sel {
		if u.Rejected {
			run.Add("compilations_skipped_program_rejected_at_parse_stage", 1)
			continue
		}
		var r *emit.Result
		if cp.Regen != nil {
			if r = c.compileRegen(cp); r == nil {
				run.Eval(1)
				continue
			}
		} else if cp.T.Name == "go" && cp.S.Bare {
			cp.OutDir = filepath.Join(c.base, "gobare", strconv.Itoa(cp.ID), "gen")
			r = c.runCompiler("", u.Dir, 60*time.Second, "-gen", "go:"+cp.S.Opts, "-r", "-out", cp.OutDir, u.Root)
		} else if cp.T.Name == "go" {
			opts := strings.ReplaceAll(cp.S.Opts, "{SUB}", cp.GoSub)
			c.load.RLock()
			r = cp.H.Gen(cp.GoSub, u.Dir, u.Root, opts, cp.S.Extra...)
			c.load.RUnlock()
			if r.TimedOut {
				c.load.Lock()
				r = cp.H.Gen(cp.GoSub, u.Dir, u.Root, opts, cp.S.Extra...)
				c.load.Unlock()
			}
			cp.OutDir = filepath.Join(cp.H.Dir, "gen", cp.GoSub)
		} else {
			cp.OutDir = filepath.Join(c.base, "out", strconv.Itoa(cp.ID))
			args := []string{"-gen", cp.T.gen(cp.S), "-r"}
			args = append(args, cp.S.Extra...)
			args = append(args, "-out", cp.OutDir, u.Root)
			r = c.runCompiler("", u.Dir, 60*time.Second, args...)
		}
		cp.Res = r
		run.Eval(1)
		run.Add("compilations", 1)
		run.Add("compilations:"+cp.T.Name, 1)
		run.Distinct(fmt.Sprintf("%s pool=%s class=%s", cp.label(), u.Pool, u.Class))
		out := r.Stdout + r.Stderr
		kind := crashKind(out, r.ExitCode, r.Signaled)
		gate := cp.T.Name == "json" && cp.S.Label == "" && cp.Regen == nil
		switch {
		case r.TimedOut:
			c.fail("hang", cp, "the compiler did not terminate within 60 s (twice) on a valid program", out, "")
		case kind != "":
			c.mu.Lock()
			c.crashSeen[kind+" "+topFrame(out)]++
			c.mu.Unlock()
			c.fail("crash:"+kind, cp, "the compiler crashed on a valid program (top compiler frame "+topFrame(out)+")", out, "")
		case r.ExitCode != 0 && gate:
			// the json generator only walks the parse tree: a rejection here comes
			// from the parser / validation stage and holds for every target
			u.Rejected = true
			class := attribute(u, "json", out)
			w := c.unitWitness(u)
			w["diagnostic"] = clip(out, 1500)
			c.violation("C11:valid-program-rejected:"+class, fmt.Sprintf("valid program %s rejected by the parse / validation stage: %s", u.ID, clip(firstLines(out, 3), 400)), w)
		case r.ExitCode != 0:
			c.fail("generator-abort", cp, "compilation of a valid program failed", out, "")
		default:
			cp.OK = true
		}
		if gate && !cp.OK {
			u.Rejected = true
		}
		if !cp.OK && cp.T.Name == "go" {
			os.RemoveAll(cp.OutDir) // partial output must not reach go build
		}
	}
}

func listFiles(root, suffix string) []string {
	var out []string
	filepath.WalkDir(root, func(p string, d fs.DirEntry, err error) error {
		if err == nil && !d.IsDir() && strings.HasSuffix(p, suffix) {
			out = append(out, p)
		}
		return nil
	})
	return out
}

// compOfPath finds the compilation an emitted file belongs to.
func (c *c11) compOfPath(p string) *comp {
	rel, err := filepath.Rel(filepath.Join(c.base, "out"), p)
	if err != nil {
		return nil
	}
	seg := strings.SplitN(filepath.ToSlash(rel), "/", 2)[0]
	return c.outIndex[seg]
}

// oracles judges every emitted file of the successful compilations.
func (c *c11) oracles() {
	run := c.run
	var py2, py3, java, html []string
	for _, cp := range c.comps {
		if !cp.OK {
			continue
		}
		switch cp.T.Name {
		case "go":
			if cp.Regen != nil {
				c.goParseOracle(cp)
			}
		case "py":
			f := cp.emitted(".py")
			py2 = append(py2, f...)
			py3 = append(py3, f...)
		case "py:tornado":
			py2 = append(py2, cp.emitted(".py")...)
		case "py:asyncio":
			py3 = append(py3, cp.emitted(".py")...)
		case "java":
			java = append(java, cp.emitted(".java")...)
		case "html":
			html = append(html, cp.emitted(".html")...)
		case "dart":
			n := 0
			for _, f := range cp.emitted(".dart") {
				b, err := os.ReadFile(f)
				if err != nil {
					continue
				}
				n++
				if err := dartLexCheck(b); err != nil {
					rel, _ := filepath.Rel(cp.OutDir, f)
					c.fail("emitted-code-rejected", cp, "emitted Dart is lexically malformed (lexical check only: no Dart toolchain)", rel+": "+err.Error(), rel)
					break
				}
			}
			run.Add("files_checked:dart(lexical-only)", n)
		case "json":
			f := filepath.Join(cp.OutDir, "frugal.json")
			b, err := os.ReadFile(f)
			if err != nil {
				c.fail("emitted-code-rejected", cp, "json target exited 0 without writing frugal.json", err.Error(), "frugal.json")
				continue
			}
			run.Add("files_checked:json", 1)
			empty := 0
			if err := jsonShapeCheck(b, &empty); err != nil {
				c.fail("emitted-code-rejected", cp, "frugal.json does not have the shape of documentation/json.md", err.Error(), "frugal.json")
			}
			c.mu.Lock()
			c.jsonEmpty += empty
			c.mu.Unlock()
			if msg := enumNumbersCollide(b, cp.U.DistinctEnums); msg != "" {
				c.fail("enum-numbers-collide", cp, "members of an enum whose numbers are distinct in the IDL share a number after parsing (frugal.json)", msg, "frugal.json")
			}
		}
	}

	type extJob struct {
		tag, what string
		argv, env []string
		prefix    string
		files     []string
	}
	var jobs []extJob
	if len(java) > 0 {
		cp, err := c.ext.javaClasses()
		if err != nil {
			run.Inconclusive("java parse oracle unavailable: " + err.Error())
		} else {
			for _, ch := range chunks(java, 6) {
				jobs = append(jobs, extJob{"java", "emitted Java rejected by javac's parser (parse only: no symbol resolution)", []string{"java", "-cp", cp, "ParseOnly"}, nil, "@", ch})
			}
		}
	}
	script := filepath.Join(ev.Root(), "py", "parse_check.py")
	if len(py2) > 0 {
		argv, env, err := c.ext.python2()
		if err != nil {
			run.Inconclusive("CPython 2.7 oracle unavailable (py and py:tornado output not judged by 2.7): " + err.Error())
		} else {
			for _, ch := range chunks(py2, 6) {
				jobs = append(jobs, extJob{"python2.7", "emitted Python rejected by CPython 2.7 compile()", append(append([]string{}, argv...), script, "py"), env, "", ch})
			}
		}
	}
	for _, ch := range chunks(py3, 6) {
		jobs = append(jobs, extJob{"python3", "emitted Python rejected by CPython 3 compile() / ast.parse", []string{"python3", script, "py"}, nil, "", ch})
	}
	for _, ch := range chunks(html, 2) {
		jobs = append(jobs, extJob{"html", "emitted HTML is not tag balanced (html.parser)", []string{"python3", script, "html"}, nil, "", ch})
	}
	var wg sync.WaitGroup
	sem := make(chan struct{}, 12)
	for _, j := range jobs {
		wg.Add(1)
		go func(j extJob) {
			defer wg.Done()
			sem <- struct{}{}
			defer func() { <-sem }()
			errs, checked, err := runListOracle(j.tag, j.argv, j.env, j.prefix, j.files)
			if err != nil {
				run.Inconclusive(err.Error())
				return
			}
			run.Add("files_checked:"+j.tag, len(j.files))
			run.Set("oracle_version:"+j.tag, checked)
			reported := map[*comp]bool{}
			for _, e := range errs {
				cp := c.compOfPath(e.File)
				if cp == nil || reported[cp] {
					continue
				}
				reported[cp] = true
				rel, _ := filepath.Rel(cp.OutDir, e.File)
				diag := fmt.Sprintf("%s:%s: %s", rel, e.Line, e.Msg)
				diagClass := "emitted-code-rejected"
				c.fail(diagClass, cp, j.what+" ["+j.tag+"]", diag, rel)
			}
		}(j)
	}
	// Go: build + vet per harness module, a few modules at a time
	gosem := make(chan struct{}, 3)
	for _, cp := range c.comps {
		if cp.OK && cp.S.Bare {
			wg.Add(1)
			go func(cp *comp) {
				defer wg.Done()
				gosem <- struct{}{}
				defer func() { <-gosem }()
				c.goBareOracle(cp)
			}(cp)
		}
	}
	for _, h := range c.harnesses {
		wg.Add(1)
		go func(h *emit.Harness) {
			defer wg.Done()
			gosem <- struct{}{}
			defer func() { <-gosem }()
			c.goOracle(h)
		}(h)
	}
	wg.Wait()
}

var reGoErr = regexp.MustCompile(`^(?:\./)?gen/([^/]+)/(\S+?\.go):(\d+):(\d+): (.*)$`)
var reGoVet = regexp.MustCompile(`^(?:\./)?gen/([^/]+)/(\S+?\.go):(\d+):(\d+): (.*)$`)

func (c *c11) goTool(h *emit.Harness, args ...string) (string, error) {
	cmd := exec.Command("go", args...)
	cmd.Dir = h.Dir
	cmd.Env = append(os.Environ(), "GOFLAGS=-mod=mod", "GOPROXY=off", "GOSUMDB=off", "GOTOOLCHAIN=local")
	b, err := cmd.CombinedOutput()
	return string(b), err
}

// goBareOracle type-checks Go emitted with package_prefix= (empty).  The
// packages import each other by bare names ("base", "a/b"), so every top-level
// directory of the output becomes a dot-less module of its own that a scratch
// main module requires and replaces; go build / go vet then resolve the bare
// import paths exactly as written.
func (c *c11) goBareOracle(cp *comp) {
	run := c.run
	root := filepath.Dir(cp.OutDir)
	ents, err := os.ReadDir(cp.OutDir)
	if err != nil {
		c.fail("emitted-code-rejected", cp, "go target exited 0 without output", err.Error(), "")
		return
	}
	var mods []string
	for _, e := range ents {
		if !e.IsDir() {
			continue
		}
		if _, err := os.Stat(filepath.Join(runtime.GOROOT(), "src", e.Name())); err == nil {
			run.Add("go_empty_prefix_skipped(package name shadows the standard library)", 1)
			return
		}
		mods = append(mods, e.Name())
	}
	sort.Strings(mods)
	gomod := "module vhbare\n\ngo 1.20\n\nrequire (\n\tgithub.com/Workiva/frugal/lib/go v0.0.0\n\tgithub.com/apache/thrift v0.19.0\n"
	for _, m := range mods {
		gomod += "\t" + m + " v0.0.0\n"
	}
	gomod += ")\n\nreplace github.com/Workiva/frugal/lib/go => " + ev.RepoDir() + "/lib/go\n"
	var patterns []string
	for _, m := range mods {
		gomod += "replace " + m + " => ./gen/" + m + "\n"
		os.WriteFile(filepath.Join(cp.OutDir, m, "go.mod"), []byte("module "+m+"\n\ngo 1.20\n"), 0o644)
		patterns = append(patterns, m+"/...")
	}
	os.WriteFile(filepath.Join(root, "go.mod"), []byte(gomod), 0o644)
	var sum []byte
	for _, f := range []string{filepath.Join(ev.RepoDir(), "go.sum"), filepath.Join(ev.RepoDir(), "lib/go/go.sum"), filepath.Join(ev.Root(), "go.sum.extra"), filepath.Join(ev.Root(), "go.sum")} {
		b, _ := os.ReadFile(f)
		sum = append(sum, b...)
		if len(b) > 0 && b[len(b)-1] != '\n' {
			sum = append(sum, '\n')
		}
	}
	os.WriteFile(filepath.Join(root, "go.sum"), sum, 0o644)
	h := &emit.Harness{Dir: root, Module: "vhbare"}
	n := len(listFiles(cp.OutDir, ".go"))
	for _, tool := range []string{"build", "vet"} {
		out, err := c.goTool(h, append([]string{tool}, patterns...)...)
		run.Add("files_checked:go("+tool+",empty package_prefix)", n)
		if err == nil {
			continue
		}
		var lines []string
		for _, l := range strings.Split(out, "\n") {
			l = strings.TrimSpace(l)
			if l != "" && !strings.HasPrefix(l, "#") && len(lines) < 6 {
				lines = append(lines, strings.TrimPrefix(l, "gen/"))
			}
		}
		diagClass := "emitted-code-rejected"
		if tool == "vet" {
			diagClass = "emitted-code-vet"
		}
		c.fail(diagClass, cp, "Go emitted with an empty package_prefix does not pass go "+tool+" (bare import paths mapped to dot-less scratch modules)", strings.Join(lines, "\n"), "")
		return
	}
}

// goOracle type-checks every emitted Go package of a harness module against
// the runtime (go build) and vets it; diagnostics are attributed by path.
func (c *c11) goOracle(h *emit.Harness) {
	run := c.run
	if _, err := os.Stat(filepath.Join(h.Dir, "gen")); err != nil {
		return
	}
	nfiles := len(listFiles(filepath.Join(h.Dir, "gen"), ".go"))
	out, err := c.goTool(h, "build", "./gen/...")
	run.Add("files_checked:go(build)", nfiles)
	failed := map[string]bool{}
	if err != nil {
		bySub := map[string][]string{}
		matched := false
		for _, l := range strings.Split(out, "\n") {
			if m := reGoErr.FindStringSubmatch(strings.TrimSpace(l)); m != nil {
				matched = true
				if len(bySub[m[1]]) < 6 {
					bySub[m[1]] = append(bySub[m[1]], m[2]+":"+m[3]+": "+m[5])
				}
			}
		}
		if !matched {
			run.Inconclusive("go build of the emitted packages failed without a diagnostic that can be attributed: " + clip(out, 600))
			return
		}
		var subs []string
		for s := range bySub {
			subs = append(subs, s)
		}
		sort.Strings(subs)
		for _, s := range subs {
			failed[s] = true
			if cp := c.goSubs[s]; cp != nil {
				c.fail("emitted-code-rejected", cp, "emitted Go does not type-check against lib/go (go build)", strings.Join(bySub[s], "\n"), strings.SplitN(bySub[s][0], ":", 2)[0])
			}
		}
	}
	vout, verr := c.goTool(h, "vet", "./gen/...")
	run.Add("files_checked:go(vet)", nfiles)
	if verr != nil {
		bySub := map[string][]string{}
		for _, l := range strings.Split(vout, "\n") {
			if m := reGoVet.FindStringSubmatch(strings.TrimSpace(l)); m != nil && !failed[m[1]] {
				if len(bySub[m[1]]) < 6 {
					bySub[m[1]] = append(bySub[m[1]], m[2]+":"+m[3]+": "+m[5])
				}
			}
		}
		var subs []string
		for s := range bySub {
			subs = append(subs, s)
		}
		sort.Strings(subs)
		for _, s := range subs {
			if cp := c.goSubs[s]; cp != nil {
				c.fail("emitted-code-vet", cp, "go vet reports a problem in emitted Go that builds", strings.Join(bySub[s], "\n"), strings.SplitN(bySub[s][0], ":", 2)[0])
			}
		}
		if len(bySub) == 0 && len(failed) == 0 {
			run.Inconclusive("go vet of the emitted packages failed without a diagnostic that can be attributed: " + clip(vout, 600))
		}
	}
}
