package main

// Include-graph shape pool.  The random programs of idl.Generate have a handful
// of files and shallow include graphs; this pool varies the SHAPE of the
// include graph of a valid program instead of its declarations: tiny files
// (one struct each, every include really used) arranged as
//
//	chain     f0 -> f1 -> ... -> fN                      (control: N files, N include paths)
//	layered   every file of layer i includes every file of layer i+1
//	          (width 2 or 3, 20-30 layers: diamond upon diamond; the number of
//	          root-to-file include PATHS is width^depth, the number of files
//	          width*depth)
//
// for every target, with and without -r.  A compiler that is total terminates
// promptly on all of them: the work is proportional to the files.  The verdict
// does not look at the wall clock: every run gets a CPU-time budget
// (ulimit -t) and the address-space limit of the other pools; a layered
// program whose run is killed by the CPU budget or ends in the Go runtime's
// out-of-memory failure, while the chain control with the same number of
// files for the same target and options needed less than a second of CPU, did
// not terminate promptly on a valid program.  The wall watchdog only guards the
// check itself and ends inconclusive.

import (
	"bytes"
	"context"
	"fmt"
	"os"
	"os/exec"
	"path/filepath"
	"strconv"
	"strings"
	"sync"
	"time"

	"verif/emit"
)

const (
	graphCPUBudgetS   = 10                // CPU seconds (user+sys) a compilation of ~60 tiny files may burn
	graphControlCPU   = time.Second       // the chain control must stay below this for a verdict
	graphWallWatchdog = 240 * time.Second // guards the check, never a verdict
)

type graphShape struct {
	Name  string // chain | layered_w2 | layered_w3
	Class string // signature class
	Width int
	Depth int
}

// graphProgram renders the shape as a valid program: the sources and the root
// file name.
func graphProgram(s graphShape) (map[string]string, string) {
	src := map[string]string{}
	base := func(layer, k int) string { return fmt.Sprintf("lay%02d%c", layer, 'a'+k) }
	for l := 0; l < s.Depth; l++ {
		for k := 0; k < s.Width; k++ {
			var b strings.Builder
			fmt.Fprintf(&b, "// include-graph shape %s: layer %d of %d\n", s.Name, l, s.Depth)
			if l+1 < s.Depth {
				for j := 0; j < s.Width; j++ {
					fmt.Fprintf(&b, "include \"%s.frugal\"\n", base(l+1, j))
				}
			}
			fmt.Fprintf(&b, "\nstruct S%02d%c {\n  1: i32 v,\n", l, 'a'+k)
			if l+1 < s.Depth {
				for j := 0; j < s.Width; j++ {
					fmt.Fprintf(&b, "  %d: %s.S%02d%c f%d,\n", j+2, base(l+1, j), l+1, 'a'+j, j)
				}
			}
			b.WriteString("}\n")
			src[base(l, k)+".frugal"] = b.String()
		}
	}
	var b strings.Builder
	fmt.Fprintf(&b, "// include-graph shape %s: root\n", s.Name)
	for j := 0; j < s.Width; j++ {
		fmt.Fprintf(&b, "include \"%s.frugal\"\n", base(0, j))
	}
	b.WriteString("\nstruct Top {\n")
	for j := 0; j < s.Width; j++ {
		fmt.Fprintf(&b, "  %d: %s.S00%c f%d,\n", j+1, base(0, j), 'a'+j, j)
	}
	fmt.Fprintf(&b, "}\n\nservice Walker {\n  Top walk(1: %s.S00a start),\n}\n", base(0, 0))
	src["graphroot.frugal"] = b.String()
	return src, "graphroot.frugal"
}

// graphRes is one budgeted run.
type graphRes struct {
	*emit.Result
	CPU time.Duration
}

// runBudget runs the compiler under the address-space limit and a CPU-time
// budget; the wall watchdog only protects the check.
func runBudget(bin, dir string, cpuS int, wall time.Duration, args ...string) *graphRes {
	ctx, cancel := context.WithTimeout(context.Background(), wall)
	defer cancel()
	sh := append([]string{"-c", fmt.Sprintf(`ulimit -v %d 2>/dev/null; ulimit -t %d 2>/dev/null; exec "$0" "$@"`, addressSpaceLimitKB, cpuS), bin}, args...)
	cmd := exec.CommandContext(ctx, "/bin/sh", sh...)
	cmd.Dir = dir
	var so, se bytes.Buffer
	cmd.Stdout, cmd.Stderr = &so, &se
	start := time.Now()
	err := cmd.Run()
	r := &graphRes{Result: &emit.Result{Stdout: so.String(), Stderr: se.String(), Wall: time.Since(start)}}
	if ps := cmd.ProcessState; ps != nil {
		r.CPU = ps.UserTime() + ps.SystemTime()
	}
	if ctx.Err() == context.DeadlineExceeded {
		r.TimedOut = true
	}
	if err != nil {
		if ee, ok := err.(*exec.ExitError); ok {
			r.ExitCode = ee.ExitCode()
			if r.ExitCode < 0 {
				r.Signaled = true
			}
		} else {
			r.ExitCode = -2
			r.Stderr += "\n" + err.Error()
		}
	}
	return r
}

type graphJob struct {
	cp        *comp
	shape     graphShape
	recursive bool
	paths     float64
	res       *graphRes
}

// includeGraphShapes compiles the shape programs for every target and judges
// termination / resource use against the chain control.  Successful
// compilations of the layered programs are registered in c.comps so that the
// language oracles judge the emitted files like those of any other pool.
// Must run before the concurrent phases (it appends to c.comps).
func (c *c11) includeGraphShapes(firstIdx int) (finish func()) {
	finish = func() {}
	run := c.run
	seed := int(run.Seed % 1000)
	d2 := 26 + seed%5 // 26..30 layers of width 2: >= 2^27 include paths
	d3 := 17 + seed%3 // 17..19 layers of width 3: >= 3^17 include paths
	if run.Thorough() {
		d2, d3 = 30, 20
	}
	shapes := []graphShape{
		{Name: "layered_w2", Class: "include_graph_layered", Width: 2, Depth: d2},
		{Name: "layered_w3", Class: "include_graph_layered", Width: 3, Depth: d3},
	}
	// one chain control per distinct file count
	var all []graphShape
	for _, s := range shapes {
		all = append(all, s, graphShape{Name: fmt.Sprintf("chain_%d", s.Width*s.Depth), Class: "include_graph_chain", Width: 1, Depth: s.Width * s.Depth})
	}
	var jobs []*graphJob
	control := map[string]*graphJob{} // files|target|set|recursive
	key := func(j *graphJob) string {
		return fmt.Sprintf("%d|%s|%v", len(j.cp.U.Src), j.cp.label(), j.recursive)
	}
	for si, s := range all {
		src, root := graphProgram(s)
		paths := 1.0
		for l := 0; l < s.Depth; l++ {
			paths *= float64(s.Width)
		}
		u := &unit{Idx: firstIdx + si, ID: fmt.Sprintf("include-graph:%s(width %d, depth %d, %d files)", s.Name, s.Width, s.Depth, len(src)), Pool: "include-graph", Class: s.Class, ClassTag: "shape:" + s.Class,
			Src: src, Root: root, Features: []string{"shape:" + s.Class, fmt.Sprintf("include_paths_to_last_layer=%.3g", paths), fmt.Sprintf("files=%d", len(src))}, Names: map[string]bool{}}
		if err := c.writeUnit(u); err != nil {
			run.Inconclusive("cannot write sources: " + err.Error())
			return
		}
		for ti, t := range c.tgts {
			set := t.Sets[(ti+seed)%len(t.Sets)]
			if t.Name == "go" && strings.Contains(set.Opts, "{SUB}") {
				set = t.Sets[0]
			}
			for _, rec := range []bool{true, false} {
				cp := &comp{ID: len(c.comps), U: u, T: t, S: set}
				c.comps = append(c.comps, cp)
				c.outIndex[fmt.Sprint(cp.ID)] = cp
				cp.OutDir = filepath.Join(c.base, "out", strconv.Itoa(cp.ID))
				j := &graphJob{cp: cp, shape: s, recursive: rec, paths: paths}
				jobs = append(jobs, j)
				if s.Width == 1 {
					control[key(j)] = j
				}
			}
		}
	}
	done := make(chan struct{})
	go func() {
		defer close(done)
		c.runGraphJobs(jobs, control, key, d2, d3)
	}()
	return func() { <-done }
}

// runGraphJobs runs and judges the shape compilations (concurrently with the
// compilations of the other pools; finished before the language oracles start).
func (c *c11) runGraphJobs(jobs []*graphJob, control map[string]*graphJob, key func(*graphJob) string, d2, d3 int) {
	run := c.run
	jch := make(chan *graphJob)
	var wg sync.WaitGroup
	for w := 0; w < 8; w++ {
		wg.Add(1)
		go func() {
			defer wg.Done()
			for j := range jch {
				cp := j.cp
				args := []string{"-gen", cp.T.gen(cp.S)}
				if j.recursive {
					args = append(args, "-r")
				}
				args = append(args, cp.S.Extra...)
				args = append(args, "-out", cp.OutDir, cp.U.Root)
				j.res = runBudget(c.bin, cp.U.Dir, graphCPUBudgetS, graphWallWatchdog, args...)
			}
		}()
	}
	for _, j := range jobs {
		jch <- j
	}
	close(jch)
	wg.Wait()

	maxCPU := map[string]float64{}
	for _, j := range jobs {
		cp, r := j.cp, j.res
		cp.Res = r.Result
		run.Eval(1)
		run.Add("compilations", 1)
		run.Add("compilations:include-graph-shapes", 1)
		run.Distinct(fmt.Sprintf("%s pool=%s class=%s shape=%s -r=%v", cp.label(), cp.U.Pool, cp.U.Class, j.shape.Name, j.recursive))
		if s := r.CPU.Seconds(); s > maxCPU[j.shape.Name] {
			maxCPU[j.shape.Name] = s
		}
		out := r.Stdout + r.Stderr
		kind := crashKind(out, r.ExitCode, r.Signaled)
		cpuKilled := r.Signaled && !r.TimedOut && r.CPU >= (graphCPUBudgetS-2)*time.Second
		oom := kind == "out-of-memory"
		rflag := ""
		if j.recursive {
			rflag = " -r"
		}
		switch {
		case r.TimedOut:
			run.Inconclusive(fmt.Sprintf("include-graph shape %s, -gen %s%s: the wall watchdog (%s) fired before the CPU budget was used up (CPU %.1f s): machine too loaded or the compiler is blocked; not judged", j.shape.Name, cp.T.gen(cp.S), rflag, graphWallWatchdog, r.CPU.Seconds()))
		case cpuKilled || oom:
			ctl := control[key(j)]
			if j.shape.Width == 1 || ctl == nil || ctl.res.ExitCode != 0 || ctl.res.TimedOut || ctl.res.CPU >= graphControlCPU {
				run.Inconclusive(fmt.Sprintf("include-graph shape %s, -gen %s%s: the compilation exhausted its resource budget but there is no fast chain control of the same size to compare with; not judged", j.shape.Name, cp.T.gen(cp.S), rflag))
				break
			}
			how := fmt.Sprintf("was killed after burning its budget of %d CPU seconds (used %.1f s)", graphCPUBudgetS, r.CPU.Seconds())
			if oom {
				how = fmt.Sprintf("ended in the Go runtime's out-of-memory failure under the %d MB address-space limit after %.1f CPU seconds", addressSpaceLimitKB/1000, r.CPU.Seconds())
			}
			w := c.unitWitness(cp.U)
			w["target"] = cp.T.Name
			w["args"] = strings.Join(append([]string{"-gen", cp.T.gen(cp.S)}, append(cp.S.Extra, strings.TrimSpace(rflag), cp.U.Root)...), " ")
			w["include_paths_from_root_to_last_layer"] = fmt.Sprintf("%.4g", j.paths)
			w["cpu_s"] = r.CPU.Seconds()
			w["control"] = fmt.Sprintf("%s (a chain of the same %d files) compiled with the same arguments: exit 0, %.3f CPU s", ctl.cp.U.ID, len(ctl.cp.U.Src), ctl.res.CPU.Seconds())
			w["output_tail"] = clip(firstLines(out, 4), 600)
			c.violation("C11:does-not-terminate-promptly:"+cp.T.Name+":"+j.shape.Class,
				fmt.Sprintf("valid program of %d tiny files whose includes form %d layers of width %d (every file includes every file of the next layer: %.3g include paths, %d files): -gen %s%s %s; the chain control with the same number of files needed %.3f CPU s: the work grows with the include paths, not with the files",
					len(cp.U.Src), j.shape.Depth, j.shape.Width, j.paths, len(cp.U.Src), cp.T.gen(cp.S), rflag, how, ctl.res.CPU.Seconds()), w)
		case kind != "":
			c.mu.Lock()
			c.crashSeen[kind+" "+topFrame(out)]++
			c.mu.Unlock()
			c.fail("crash:"+kind, cp, "the compiler crashed on a valid program (top compiler frame "+topFrame(out)+")", out, "")
		case r.ExitCode != 0:
			c.fail("generator-abort", cp, "compilation of a valid program failed", out, "")
		default:
			// emitted files of the recursive runs go to the language oracles
			// (Go output of this pool: exit status only)
			cp.OK = j.recursive || cp.T.Name == "json" || cp.T.Name == "html"
			if !cp.OK {
				os.RemoveAll(cp.OutDir)
			}
		}
	}
	run.Set("include_graph_shapes", map[string]interface{}{
		"layered_w2_depth": d2, "layered_w3_depth": d3, "compilations": len(jobs),
		"cpu_budget_s": graphCPUBudgetS, "max_cpu_s_by_shape": maxCPU,
	})
}
