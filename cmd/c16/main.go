// Command c16 monitors property C16: every RPC, publish and subscriber
// delivery passes through every supplied service middleware exactly once, in
// the declared nesting order, each seeing what its neighbours passed, and
// rewrites are exactly what the other side observes (DESIGN.md §4 C16).
//
// Thin driver: generates Go from /verif/fixtures with the compiler built from
// the repository under test, copies the monitor (/verif/harness/c16) next to
// the emitted code, builds it against the runtime under test and runs it.  The
// harness binary is the check: it owns the ev.Run and writes evidence/C16.json.
package main

import (
	"fmt"
	"os"
	"path/filepath"

	"verif/emit"
	"verif/ev"
)

func main() {
	h, err := emit.NewHarness("c16")
	if err != nil {
		fmt.Println("INCONCLUSIVE property=C16 cannot create the harness module:", err)
		os.Exit(2)
	}
	if r := h.Gen("", filepath.Join(ev.Root(), "fixtures"), "main.frugal", ""); r.ExitCode != 0 || r.TimedOut {
		fmt.Println("INCONCLUSIVE property=C16 the compiler under test failed on the fixture IDL:", r.Stdout, r.Stderr)
		os.Exit(2)
	}
	if err := h.CopySources(filepath.Join(ev.Root(), "harness/e2e"), "e2e"); err != nil {
		fmt.Println(err)
		os.Exit(2)
	}
	if err := h.CopySources(filepath.Join(ev.Root(), "harness/c16"), "c16"); err != nil {
		fmt.Println(err)
		os.Exit(2)
	}
	if os.Getenv("VERIF_VET") != "" {
		if out, err := h.Vet("./c16"); err != nil {
			fmt.Println("go vet:", out)
			os.Exit(2)
		}
	}
	bin, out, err := h.Build("./c16", "c16.bin", false)
	if err != nil {
		fmt.Println("BUILD-FAILED property=C16 (emitted code + monitor do not build against the tree under test)")
		fmt.Println(out)
		os.Exit(2)
	}
	code := emit.ExecHarness(bin, os.Args[1:]...)
	if code != 0 && code != 1 && code != 3 {
		fmt.Printf("INCONCLUSIVE property=C16 the monitor process ended abnormally (exit %d)\n", code)
	}
	os.Exit(code)
}
