// Command c19 monitors the determinism and location independence of the
// frugal compiler: the same IDL program compiled with the same options must
// yield byte-identical files whatever the repetition, the working directory,
// the absolute place of the sources and the output directory chosen.
//
// Oracle: direct comparison of {path relative to the -out root -> sha256}.
package main

import (
	"crypto/sha256"
	"encoding/hex"
	"fmt"
	"io/fs"
	"os"
	"path"
	"path/filepath"
	"regexp"
	"sort"
	"strings"
	"sync"
	"time"

	"verif/emit"
	"verif/ev"
	"verif/idl"
)

func main() {
	if len(os.Args) > 2 && os.Args[1] == "inproc-child" {
		os.Exit(inprocChild(os.Args[2]))
	}
	os.Exit(runC19(ev.ArgTier()))
}

// optSet is one option set of a target; Gen is the full -gen value.
type optSet struct {
	Label string // "" = plain
	Opts  string // comma separated generator options
	Extra []string
}

type target struct {
	Name string // go, java, dart, py, py:asyncio, py:tornado, json, html
	Sets []optSet
}

func (t target) gen(o optSet) string {
	if o.Opts == "" {
		return t.Name
	}
	if strings.Contains(t.Name, ":") {
		return t.Name + "," + o.Opts
	}
	return t.Name + ":" + o.Opts
}

// targets lists every target with the option sets read from
// compiler/generator/generator.go (java generated_annotations=use is dated by
// design and excluded; use_vendor needs vendor annotations and a vendored
// tree, not generated here).
func targets() []target {
	py := []optSet{{}, {Label: "package_prefix", Opts: "package_prefix=genpfx."}, {Label: "delim", Extra: []string{"-delim", "/"}}}
	return []target{
		{"go", []optSet{{},
			{Label: "async", Opts: "async"},
			{Label: "slim", Opts: "slim"},
			{Label: "suppress_deprecated_logging", Opts: "suppress_deprecated_logging"},
			{Label: "package_prefix", Opts: "package_prefix=example.com/gen/c19"},
			{Label: "omit_server_service_generation", Opts: "omit_server_service_generation"},
			{Label: "imports", Opts: "thrift_import=example.com/vendored/thrift,frugal_import=example.com/vendored/frugal"},
			{Label: "async+slim+suppress_deprecated_logging+package_prefix", Opts: "async,slim,suppress_deprecated_logging,package_prefix=example.com/gen/"},
			{Label: "delim", Extra: []string{"-delim", "-"}},
		}},
		{"java", []optSet{{},
			{Label: "async", Opts: "async"},
			{Label: "boxed_primitives", Opts: "boxed_primitives"},
			{Label: "generated_annotations=undated", Opts: "generated_annotations=undated"},
			{Label: "generated_annotations=suppress", Opts: "generated_annotations=suppress"},
			{Label: "default_unsupported", Opts: "default_unsupported"},
			{Label: "suppress_deprecated_logging", Opts: "suppress_deprecated_logging"},
			{Label: "async+boxed_primitives+default_unsupported+undated", Opts: "async,boxed_primitives,default_unsupported,generated_annotations=undated"},
		}},
		{"dart", []optSet{{},
			{Label: "use_enums", Opts: "use_enums"},
			{Label: "use_int64", Opts: "use_int64"},
			{Label: "use_null_for_unset", Opts: "use_null_for_unset"},
			{Label: "library_prefix", Opts: "library_prefix=my_parent_lib.src.gen"},
			{Label: "use_enums+use_int64+use_null_for_unset", Opts: "use_enums,use_int64,use_null_for_unset"},
		}},
		{"py", py},
		{"py:asyncio", py},
		{"py:tornado", py},
		{"json", []optSet{{}, {Label: "indent", Opts: "indent"}}},
		{"html", []optSet{{}, {Label: "standalone", Opts: "standalone"}}},
	}
}

// bigConfig is CoreConfig scaled up in every map-backed dimension (files in
// a DAG, types, services, scopes) beyond the repository's goldens.
func bigConfig() idl.Config {
	c := idl.CoreConfig()
	c.MinFiles, c.MaxFiles = 6, 10
	c.MinTypes, c.MaxTypes = 15, 30
	c.MaxServices, c.MaxScopes = 4, 4
	return c
}

type tree map[string]string // relative path -> sha256

func hashTree(root string) (tree, error) {
	t := tree{}
	err := filepath.WalkDir(root, func(p string, d fs.DirEntry, err error) error {
		if err != nil {
			return err
		}
		if d.IsDir() {
			return nil
		}
		b, err := os.ReadFile(p)
		if err != nil {
			return err
		}
		rel, _ := filepath.Rel(root, p)
		s := sha256.Sum256(b)
		t[filepath.ToSlash(rel)] = hex.EncodeToString(s[:])
		return nil
	})
	return t, err
}

var (
	reGoSvc     = regexp.MustCompile(`^f_.*_service\.go$`)
	reGoScope   = regexp.MustCompile(`^f_.*_scope\.go$`)
	reDartSvc   = regexp.MustCompile(`^f_.*_service\.dart$`)
	reDartScope = regexp.MustCompile(`^f_.*_scope\.dart$`)
	reDartConst = regexp.MustCompile(`^f_.*_constants\.dart$`)
)

// fileClass normalises a generated file name to its class, so that the
// signature does not carry random identifiers.
func fileClass(tgt, rel string) string {
	base := filepath.Base(rel)
	switch {
	case tgt == "go":
		switch {
		case base == "f_types.go":
			return base
		case reGoSvc.MatchString(base):
			return "f_*_service.go"
		case reGoScope.MatchString(base):
			return "f_*_scope.go"
		}
	case tgt == "java":
		switch {
		case strings.HasSuffix(base, "Publisher.java"):
			return "*Publisher.java"
		case strings.HasSuffix(base, "Subscriber.java"):
			return "*Subscriber.java"
		case strings.HasSuffix(base, "Constants.java"):
			return "*Constants.java"
		case strings.HasPrefix(base, "F") && len(base) > 6 && base[1] >= 'A' && base[1] <= 'Z':
			return "F*.java(service-or-type)"
		}
		return "<type>.java"
	case tgt == "dart":
		switch {
		case base == "pubspec.yaml":
			return base
		case reDartSvc.MatchString(base):
			return "f_*_service.dart"
		case reDartScope.MatchString(base):
			return "f_*_scope.dart"
		case reDartConst.MatchString(base):
			return "f_*_constants.dart"
		case strings.HasPrefix(base, "f_"):
			return "f_<type>.dart"
		}
		return "<library>.dart"
	case strings.HasPrefix(tgt, "py"):
		switch {
		case base == "ttypes.py" || base == "constants.py" || base == "__init__.py":
			return base
		case strings.HasSuffix(base, "_publisher.py"):
			return "f_*_publisher.py"
		case strings.HasSuffix(base, "_subscriber.py"):
			return "f_*_subscriber.py"
		}
		return "f_<service>.py"
	case tgt == "json":
		return base
	case tgt == "html":
		if base == "index.html" || base == "style.css" {
			return base
		}
		return "<module>.html"
	}
	return "other:" + filepath.Ext(base)
}

// firstDiff returns the first differing lines of two texts with one line of
// context before.
func firstDiff(a, b string) map[string]interface{} {
	la, lb := strings.Split(a, "\n"), strings.Split(b, "\n")
	i := 0
	for i < len(la) && i < len(lb) && la[i] == lb[i] {
		i++
	}
	snip := func(l []string) []string {
		from := i - 1
		if from < 0 {
			from = 0
		}
		to := i + 3
		if to > len(l) {
			to = len(l)
		}
		if from > to {
			from = to
		}
		out := []string{}
		for _, s := range l[from:to] {
			if len(s) > 300 {
				s = s[:300] + "…"
			}
			out = append(out, s)
		}
		return out
	}
	return map[string]interface{}{"first_differing_line": i + 1, "a": snip(la), "b": snip(lb)}
}

// job is one (program, target, option set, -r) compilation key.
type job struct {
	P                   int
	Prog                *idl.Program
	Src                 map[string]string // file name -> text
	AltSrc              map[string]string // html only: same program with non-string-keyed map literals emptied (see sanitizeForHTML)
	Tgt                 target
	Set                 optSet
	Recurse             bool
	Reps                int
	Vars                []string  // location variations to apply
	Tree                bool      // sources laid out with a sub/ directory (treeProgram)
	Dirty               []string  // -out directories that already hold the output of ANOTHER compilation
	RootPlus, RootMinus string    // root file text with declarations added / with the last declaration removed
	AltPlus, AltMinus   string    // the same for AltSrc
	Dir                 string    // private scratch directory of the job
	NameTurn            int       // directory-name variations (dirnames.go): rotation index,
	OutNames, SrcNames  []dirComp // names of the -out path / of the source root
}

// one observation of the compiler
type obs struct {
	Exit int
	Out  string
	Tree tree
	Args []string
	Cwd  string
	Root string // output root that was hashed
}

type difference struct {
	Kind     string // "file-content" | "file-set" | "acceptance"
	Rel      string
	Detail   interface{}
	FirstRun *obs
	Other    *obs
}

// pending is one refuting observation waiting for classification.
type pending struct {
	Kind   string // nondeterministic | location-dependent | in-process
	Target string
	Label  string // option set label
	Plain  bool   // nondeterministic: shown with the plain option set too
	Cls    string // file class
	Tail   string // what varied / which step (other kinds)
	What   string
	W      map[string]interface{}
}

func (c *c19) pend(p *pending) {
	c.mu.Lock()
	c.pendings = append(c.pendings, p)
	c.mu.Unlock()
}

// finalize turns the observations into violations.  A (target, file class)
// shown to be nondeterministic by any experiment gets ONE signature,
// C19:nondeterministic:<target>[:<option>]:<file class>; differences of the
// same file class seen by the location, dirty -out and in-process experiments
// are booked under it (map iteration orders can be heavily biased, so a few
// re-runs in place cannot always tell the two apart).
func (c *c19) finalize() {
	type ndInfo struct {
		plain  bool
		labels []string
	}
	nd := map[string]*ndInfo{}
	for _, p := range c.pendings {
		if p.Kind != "nondeterministic" {
			continue
		}
		k := p.Target + "|" + p.Cls
		if nd[k] == nil {
			nd[k] = &ndInfo{}
		}
		if p.Plain {
			nd[k].plain = true
		}
		nd[k].labels = append(nd[k].labels, p.Label)
	}
	canonical := func(p *pending) string {
		info := nd[p.Target+"|"+p.Cls]
		if info.plain {
			return "C19:nondeterministic:" + p.Target + ":" + p.Cls
		}
		sort.Strings(info.labels)
		return "C19:nondeterministic:" + p.Target + ":" + info.labels[0] + ":" + p.Cls
	}
	type out struct {
		sig string
		p   *pending
	}
	var outs []out
	for _, p := range c.pendings {
		switch {
		case nd[p.Target+"|"+p.Cls] != nil && p.Kind != "nondeterministic":
			p.What = "(seen by the " + p.Kind + " experiment, " + p.Tail + ") " + p.What
			c.run.Add("differences_booked_under_nondeterminism_of_the_same_file_class", 1)
			fallthrough
		case p.Kind == "nondeterministic":
			outs = append(outs, out{canonical(p), p})
		default:
			outs = append(outs, out{"C19:" + p.Kind + ":" + p.Target + ":" + p.Tail, p})
		}
	}
	sort.SliceStable(outs, func(i, j int) bool {
		if outs[i].sig != outs[j].sig {
			return outs[i].sig < outs[j].sig
		}
		return outs[i].p.Kind == "nondeterministic" && outs[j].p.Kind != "nondeterministic"
	})
	for _, o := range outs {
		c.run.Violation(o.sig, o.p.What, o.p.W)
	}
}

type c19 struct {
	run      *ev.Run
	bin      string
	mu       sync.Mutex
	pendings []*pending
	// counters
	rejected map[string]int
}

func (c *c19) writeSources(dir string, src map[string]string) error {
	if err := os.MkdirAll(dir, 0o755); err != nil {
		return err
	}
	for n, s := range src {
		p := filepath.Join(dir, filepath.FromSlash(n))
		if err := os.MkdirAll(filepath.Dir(p), 0o755); err != nil {
			return err
		}
		if err := os.WriteFile(p, []byte(s), 0o644); err != nil {
			return err
		}
	}
	return nil
}

// treeProgram lays a program out as a small directory tree and rewrites the
// include statements accordingly.  The compiler names an include by the base
// name of its path, so every reference stays valid.  layout maps file name ->
// path relative to the source root.
//
//	variant "sub":  every second file (never the root) moves to sub/
//	                ("sub/x.frugal" from the top, "../y.frugal" from sub/)
//	variant "app":  the root and every second file live in app/, the others in
//	                the sibling directory zlib/: the root reaches half of its
//	                includes through ".." , i.e. OUTSIDE its own directory
//
// Two DIFFERENT files share the base name zz_shared.frugal, one in each
// directory, reached through different includers (legal: includes resolve
// relative to the including file).
func treeProgram(p *idl.Program, layout map[string]string, variant string) (*idl.Program, map[string]string) {
	dirOf := map[string]string{}
	for i, f := range p.Files {
		odd := i%2 == 1 && i != len(p.Files)-1
		switch {
		case variant == "sub" && odd:
			dirOf[f.FileName()] = "sub"
		case variant == "app" && odd:
			dirOf[f.FileName()] = "zlib"
		case variant == "app":
			dirOf[f.FileName()] = "app"
		default:
			dirOf[f.FileName()] = ""
		}
		layout[f.FileName()] = path.Join(dirOf[f.FileName()], f.FileName())
	}
	rel := func(fromDir, toDir, name string) string {
		if fromDir == toDir {
			return name
		}
		r, _ := filepath.Rel("/"+fromDir, "/"+path.Join(toDir, name))
		return filepath.ToSlash(r)
	}
	cp := *p
	cp.Files = nil
	for i, f := range p.Files {
		nf := *f
		nf.Includes = nil
		for _, inc := range f.Includes {
			nf.Includes = append(nf.Includes, &idl.Include{Path: rel(dirOf[f.FileName()], dirOf[inc.Path], inc.Path)})
		}
		if i <= 1 {
			nf.Includes = append(nf.Includes, &idl.Include{Path: namesake})
		}
		cp.Files = append(cp.Files, &nf)
	}
	d0, d1 := dirOf[p.Files[0].FileName()], dirOf[p.Files[1].FileName()]
	extra := map[string]string{
		path.Join(d0, namesake): "struct ZzSharedTop {\n  1: i32 a\n}\n",
		path.Join(d1, namesake): "enum ZzSharedKind {\n  X,\n  Y\n}\nstruct ZzSharedSub {\n  1: string b,\n  2: ZzSharedKind k\n}\n",
	}
	return &cp, extra
}

// namesake is the base name shared by two different files of a tree program.
const namesake = "zz_shared.frugal"

// rootRel records where the root file of a laid-out program lives relative to
// the source root (written during set-up only).
var rootRel = map[*idl.Program]string{}

// rootOf returns the root file's path relative to the source root.
func rootOf(p *idl.Program) string {
	if r, ok := rootRel[p]; ok {
		return r
	}
	return p.Root().FileName()
}

// compile runs the compiler once and hashes the tree below outAbs.
func (c *c19) compile(j *job, cwd, file, outArg, outAbs string) *obs {
	args := []string{"-gen", j.Tgt.gen(j.Set)}
	if j.Recurse {
		args = append(args, "-r")
	}
	args = append(args, j.Set.Extra...)
	if outArg != "" { // "" = no -out: the compiler's default output directory, relative to the cwd
		args = append(args, "-out", outArg)
	}
	args = append(args, file)
	var r *emit.Result
	for attempt := 0; attempt < 2; attempt++ {
		r = emit.Run(c.bin, cwd, 120*time.Second, args...)
		if !r.TimedOut {
			break
		}
	}
	o := &obs{Exit: r.ExitCode, Out: strings.TrimSpace(r.Stdout + r.Stderr), Args: args, Cwd: cwd, Root: outAbs}
	if r.TimedOut {
		o.Exit = -99
		return o
	}
	c.run.Add("compilations", 1)
	if r.ExitCode == 0 {
		t, err := hashTree(outAbs)
		if err != nil {
			o.Out += "\n(hashing the output tree failed: " + err.Error() + ")"
		}
		o.Tree = t
		c.run.Add("files_hashed", len(t))
	}
	return o
}

// compare returns the first difference between the reference observation and
// another one (nil when identical).
func compare(ref, o *obs) *difference {
	if (ref.Exit == 0) != (o.Exit == 0) {
		return &difference{Kind: "acceptance", Detail: map[string]interface{}{"exit_a": ref.Exit, "exit_b": o.Exit, "output_a": clip(ref.Out, 600), "output_b": clip(o.Out, 600)}, FirstRun: ref, Other: o}
	}
	if ref.Exit != 0 {
		return nil
	}
	var names []string
	for n := range ref.Tree {
		names = append(names, n)
	}
	for n := range o.Tree {
		if _, ok := ref.Tree[n]; !ok {
			names = append(names, n)
		}
	}
	sort.Strings(names)
	for _, n := range names {
		ha, oka := ref.Tree[n]
		hb, okb := o.Tree[n]
		if !oka || !okb {
			return &difference{Kind: "file-set", Rel: n, Detail: map[string]interface{}{"present_in_a": oka, "present_in_b": okb}, FirstRun: ref, Other: o}
		}
		if ha != hb {
			return &difference{Kind: "file-content", Rel: n, FirstRun: ref, Other: o}
		}
	}
	return nil
}

// compareEmitted checks that every file of the reference (what the compilation
// emits into a fresh directory) is present with the same bytes in o, whose
// -out directory held the output of another compilation before.  Files that
// only the earlier compilation wrote may remain: their absence is not required.
func compareEmitted(ref, o *obs) *difference {
	if (ref.Exit == 0) != (o.Exit == 0) {
		return &difference{Kind: "acceptance", Detail: map[string]interface{}{"exit_a": ref.Exit, "exit_b": o.Exit, "output_a": clip(ref.Out, 600), "output_b": clip(o.Out, 600)}, FirstRun: ref, Other: o}
	}
	if ref.Exit != 0 {
		return nil
	}
	var names []string
	for n := range ref.Tree {
		names = append(names, n)
	}
	sort.Strings(names)
	for _, n := range names {
		hb, okb := o.Tree[n]
		if !okb {
			return &difference{Kind: "file-set", Rel: n, Detail: map[string]interface{}{"present_in_a": true, "present_in_b": false}, FirstRun: ref, Other: o}
		}
		if ref.Tree[n] != hb {
			return &difference{Kind: "file-content", Rel: n, FirstRun: ref, Other: o}
		}
	}
	return nil
}

// otherCompilation picks the compilation X whose output pre-fills the -out
// directory: another flavour for the Python family, otherwise the next option
// set of the same target.
func otherCompilation(j *job, tgts []target) (target, optSet) {
	if strings.HasPrefix(j.Tgt.Name, "py") {
		fl := []string{"py:asyncio", "py:tornado", "py"}
		for i, n := range fl {
			if n == j.Tgt.Name {
				want := fl[(i+1+j.P%2)%3]
				if want == j.Tgt.Name {
					want = fl[(i+1)%3]
				}
				for _, t := range tgts {
					if t.Name == want {
						return t, j.Set
					}
				}
			}
		}
	}
	for i, s := range j.Tgt.Sets {
		if s.Label == j.Set.Label {
			return j.Tgt, j.Tgt.Sets[(i+1)%len(j.Tgt.Sets)]
		}
	}
	return j.Tgt, j.Tgt.Sets[0]
}

// runDirty compiles X into the -out directory first and then the job's own
// compilation Y into the same directory; returns Y's observation (nil when X
// was rejected: nothing to observe).
func (c *c19) runDirty(j *job, kind, srcA, outA, rootFile string, ref *obs, refKeep string) *obs {
	os.RemoveAll(outA)
	if kind == "out-holds-handwritten-siblings" {
		// every directory the compilation emits into already holds a file that
		// is NOT generated: hand-written code next to generated code is ordinary
		// practice.  For Go the sibling belongs to the emitted package and
		// imports non-standard packages named like standard ones (goimports
		// consults the imports of sibling files); it need not compile.
		dirs := map[string]bool{}
		for rel := range ref.Tree {
			dirs[filepath.Dir(filepath.FromSlash(rel))] = true
		}
		for d := range dirs {
			dst := filepath.Join(outA, d)
			os.MkdirAll(dst, 0o755)
			name, text := handwrittenSibling(j.Tgt.Name, filepath.Join(refKeep, d))
			os.WriteFile(filepath.Join(dst, name), []byte(text), 0o644)
		}
		return c.compile(j, srcA, rootFile, "out", outA)
	}
	if kind == "out-holds-same-names-other-content" {
		// every file NAME the compilation emits already exists in the output
		// directory with other content: empty, truncated or foreign
		k := 0
		names := make([]string, 0, len(ref.Tree))
		for rel := range ref.Tree {
			names = append(names, rel)
		}
		sort.Strings(names)
		for _, rel := range names {
			dst := filepath.Join(outA, filepath.FromSlash(rel))
			os.MkdirAll(filepath.Dir(dst), 0o755)
			var content []byte
			switch (k + j.P) % 3 {
			case 1:
				b, _ := os.ReadFile(filepath.Join(refKeep, filepath.FromSlash(rel)))
				content = b[:len(b)/2]
			case 2:
				content = []byte("zz foreign content, not generated\n")
			}
			os.WriteFile(dst, content, 0o644)
			k++
		}
		return c.compile(j, srcA, rootFile, "out", outA)
	}
	xj := *j
	rootPath := filepath.Join(srcA, rootFile)
	switch kind {
	case "out-holds-other-option-set":
		xj.Tgt, xj.Set = otherCompilation(j, targets())
	case "out-holds-revision-with-more-declarations":
		os.WriteFile(rootPath, []byte(j.RootPlus), 0o644)
	case "out-holds-revision-with-fewer-declarations":
		os.WriteFile(rootPath, []byte(j.RootMinus), 0o644)
	}
	x := c.compile(&xj, srcA, rootFile, "out", outA)
	os.WriteFile(rootPath, []byte(j.Src[rootFile]), 0o644)
	c.run.Eval(1)
	if x.Exit != 0 {
		c.run.Add("dirty_out_first_compilation_rejected_or_timed_out", 1)
		os.RemoveAll(outA)
		return nil
	}
	return c.compile(j, srcA, rootFile, "out", outA)
}

var rePackageClause = regexp.MustCompile(`(?m)^package\s+(\w+)`)

// handwrittenSibling returns name and text of a non-generated file for a
// directory of emitted code (generatedDir = the same directory in the
// reference output, read to learn the Go package name).
func handwrittenSibling(tgt, generatedDir string) (string, string) {
	switch {
	case tgt == "go":
		pkg := "handwritten"
		ents, _ := os.ReadDir(generatedDir)
		for _, e := range ents {
			if strings.HasSuffix(e.Name(), ".go") {
				b, _ := os.ReadFile(filepath.Join(generatedDir, e.Name()))
				if m := rePackageClause.FindSubmatch(b); m != nil {
					pkg = string(m[1])
					break
				}
			}
		}
		return "zz_handwritten.go", "package " + pkg + `

import (
	"github.com/pkg/errors"
	"example.com/fake/sql/driver"
	fmt "example.com/fake/fmt"
	"example.com/fake/bytes"
	"example.com/fake/context"
	thrift "example.com/fake/thrift"
	frugal "example.com/fake/frugal"
)

// hand-written helpers living next to the generated code
var ErrHandwritten = errors.New("handwritten")

func handwrittenValue() (driver.Value, error) {
	var b bytes.Buffer
	_ = context.Background()
	_ = thrift.NewTMemoryBuffer()
	_ = frugal.NewFContext("")
	return fmt.Sprint(b), errors.Wrap(ErrHandwritten, "x")
}
`
	case strings.HasPrefix(tgt, "py"):
		return "zz_handwritten.py", "import errors\nfrom . import ttypes\n\ndef handwritten():\n    return errors\n"
	case tgt == "java":
		return "ZzHandwritten.java", "public class ZzHandwritten { }\n"
	case tgt == "dart":
		return "zz_handwritten.dart", "library zz_handwritten;\n"
	case tgt == "html":
		return "zz_handwritten.html", "<html><body>hand written</body></html>\n"
	}
	return "zz_handwritten.txt", "hand written\n"
}

func clip(s string, n int) string {
	if len(s) > n {
		return s[:n] + "…"
	}
	return s
}

func (c *c19) witness(j *job, d *difference, refKeep string) map[string]interface{} {
	w := map[string]interface{}{
		"program_sources": j.Src, "root_file": rootOf(j.Prog), "features": j.Prog.FeatureList(),
		"target": j.Tgt.Name, "gen": j.Tgt.gen(j.Set), "recurse": j.Recurse,
		"run_a":      map[string]interface{}{"cwd": d.FirstRun.Cwd, "args": d.FirstRun.Args},
		"run_b":      map[string]interface{}{"cwd": d.Other.Cwd, "args": d.Other.Args},
		"difference": d.Kind, "file": d.Rel,
	}
	if d.Detail != nil {
		w["detail"] = d.Detail
	}
	if d.Kind == "file-content" {
		a, _ := os.ReadFile(filepath.Join(refKeep, filepath.FromSlash(d.Rel)))
		b, _ := os.ReadFile(filepath.Join(d.Other.Root, filepath.FromSlash(d.Rel)))
		w["diff"] = firstDiff(string(a), string(b))
	}
	return w
}

// runJob performs the repetitions and the location variations of one job.
func (c *c19) runJob(j *job) {
	run := c.run
	rootFile := rootOf(j.Prog)
	srcA := filepath.Join(j.Dir, "A", "src")
	if err := c.writeSources(srcA, j.Src); err != nil {
		run.Inconclusive("cannot write sources: " + err.Error())
		return
	}
	outA := filepath.Join(srcA, "out")
	refKeep := filepath.Join(j.Dir, "ref-output")
	label := j.Tgt.Name
	if j.Set.Label != "" {
		label += ":" + j.Set.Label
	}

	// reference run: cwd = source dir, file addressed relatively, -out relative
	ref := c.compile(j, srcA, rootFile, "out", outA)
	run.Eval(1)
	if ref.Exit == -99 {
		run.Inconclusive(fmt.Sprintf("compiler did not terminate within the watchdog twice (program %d, %s)", j.P, label))
		return
	}
	if ref.Exit != 0 && j.AltSrc != nil {
		// the html generator of the pinned tree aborts on constant maps with
		// non-string keys (C11's finding); determinism of the html output is
		// still worth observing, so the program is retried with those literals
		// emptied.  Counted in evidence, never hidden.
		os.RemoveAll(srcA)
		j.Src = j.AltSrc
		j.RootPlus, j.RootMinus = j.AltPlus, j.AltMinus
		c.writeSources(srcA, j.Src)
		run.Add("html_programs_retried_with_non_string_keyed_map_literals_emptied", 1)
		ref = c.compile(j, srcA, rootFile, "out", outA)
		run.Eval(1)
	}
	if ref.Exit == 0 {
		os.Rename(outA, refKeep)
		run.Distinct(fmt.Sprintf("%s r=%v files=%d", label, j.Recurse, len(ref.Tree)/8))
	} else {
		os.RemoveAll(outA)
		c.mu.Lock()
		c.rejected[j.Tgt.Name]++
		c.mu.Unlock()
		run.Add("compilations_rejected_in_reference_location(C11's business)", 1)
	}

	// observations are classified at the end of the run (finalize): a file
	// class shown to be nondeterministic anywhere is not also reported as
	// location / sequence dependent
	reportND := func(what string, d *difference, aDir string) {
		cls := "acceptance"
		if d.Rel != "" {
			cls = fileClass(j.Tgt.Name, d.Rel)
		}
		c.pend(&pending{Kind: "nondeterministic", Target: j.Tgt.Name, Label: j.Set.Label, Plain: j.Set.Label == "" || c.plainAlsoDiffers(j), Cls: cls, What: what, W: c.witness(j, d, aDir)})
	}
	report := func(kind, varied, what string, d *difference, aDir string) {
		cls := "acceptance"
		if d.Rel != "" {
			cls = fileClass(j.Tgt.Name, d.Rel)
		}
		c.pend(&pending{Kind: kind, Target: j.Tgt.Name, Label: j.Set.Label, Cls: cls, Tail: varied, What: what, W: c.witness(j, d, aDir)})
	}

	// repetitions in the same location, same arguments
	for k := 1; k < j.Reps; k++ {
		o := c.compile(j, srcA, rootFile, "out", outA)
		run.Eval(1)
		run.Add("repetition_comparisons", 1)
		if o.Exit == -99 {
			run.Inconclusive(fmt.Sprintf("watchdog on repetition %d (program %d, %s)", k, j.P, label))
			os.RemoveAll(outA)
			continue
		}
		if d := compare(ref, o); d != nil {
			reportND(fmt.Sprintf("repetition %d of the same compilation (same cwd, same arguments) differs from repetition 0: %s %s", k, d.Kind, d.Rel), d, refKeep)
			os.RemoveAll(outA)
			break
		}
		os.RemoveAll(outA)
	}

	// location variations: each varies one aspect against the reference run
	for _, v := range j.Vars {
		o, cleanup := c.runVariation(j, v, srcA, outA, rootFile)
		if o == nil {
			continue
		}
		run.Eval(1)
		run.Add("location_comparisons", 1)
		run.Add("location:"+v, 1)
		if o.Exit == -99 {
			run.Inconclusive(fmt.Sprintf("watchdog in location %q (program %d, %s)", v, j.P, label))
		} else if d := compare(ref, o); d != nil {
			// same location once more: if two runs in this very location differ
			// from each other the cause is nondeterminism, not the location
			keep := filepath.Join(j.Dir, "loc-keep")
			os.RemoveAll(keep)
			os.Rename(o.Root, keep)
			for _, p := range cleanup {
				os.RemoveAll(p)
			}
			var o2 *obs
			var d2 *difference
			for again := 0; again < 6 && d2 == nil; again++ {
				if again > 0 {
					for _, p := range cleanup {
						os.RemoveAll(p)
					}
				}
				o2, cleanup = c.runVariation(j, v, srcA, outA, rootFile)
				if o2 == nil || o2.Exit == -99 {
					break
				}
				d2 = compare(o, o2)
			}
			if o2 != nil && o2.Exit != -99 {
				if d2 != nil {
					reportND(fmt.Sprintf("two compilations in the same location (%q, same arguments) differ: %s %s", v, d2.Kind, d2.Rel), d2, keep)
				} else {
					d.Other = o2
					tails := []string{v}
					if isDirNameVar(v) {
						// which class of directory name is it?  one compilation per name
						tails = c.attributeDirName(j, v, ref, rootFile)
					}
					for _, tl := range tails {
						what := fmt.Sprintf("compiling the same program with the same options differs when only %q varies (stable within each location): %s %s", tl, d.Kind, d.Rel)
						report("location-dependent", tl, what, d, refKeep)
					}
				}
			}
			os.RemoveAll(keep)
		}
		for _, p := range cleanup {
			os.RemoveAll(p)
		}
	}
	// -out directories that already hold the output of another compilation
	if ref.Exit == 0 {
		for _, kind := range j.Dirty {
			o := c.runDirty(j, kind, srcA, outA, rootFile, ref, refKeep)
			if o == nil {
				continue
			}
			run.Eval(1)
			run.Add("dirty_out_comparisons", 1)
			run.Add("dirty_out:"+kind, 1)
			if o.Exit == -99 {
				run.Inconclusive(fmt.Sprintf("watchdog in %q (program %d, %s)", kind, j.P, label))
			} else if d := compareEmitted(ref, o); d != nil {
				// is the compilation stable at all?  compile it into a fresh directory again
				var du *difference
				for again := 0; again < 6 && du == nil; again++ {
					os.RemoveAll(outA)
					f := c.compile(j, srcA, rootFile, "out", outA)
					if f.Exit != -99 {
						du = compare(ref, f)
					}
				}
				if du != nil {
					run.Add("dirty_out_differences_attributed_to_nondeterminism", 1)
					reportND(fmt.Sprintf("two compilations into a fresh directory (same cwd, same arguments) differ: %s %s", du.Kind, du.Rel), du, refKeep)
					os.RemoveAll(outA)
					continue
				}
				what := fmt.Sprintf("a file emitted into an -out directory that held the output of another compilation (%s) differs from the same compilation into a fresh directory: %s %s", kind, d.Kind, d.Rel)
				report("location-dependent", kind, what, d, refKeep)
			}
			os.RemoveAll(outA)
		}
	}
	os.RemoveAll(j.Dir)
}

// defaultOutDir is the documented default output directory of a target.
func defaultOutDir(tgt string) string {
	switch tgt {
	case "py:asyncio":
		return "gen-py.asyncio"
	case "py:tornado":
		return "gen-py.tornado"
	}
	return "gen-" + tgt
}

// runDefaultOut compiles one (program, target, option set) from an empty
// working directory without -out, and from another empty working directory
// with -out <default directory> spelled out.  Both working directories, hashed
// as whole trees relative to the cwd, must be identical, and everything the
// compiler writes must lie inside the output directory.
func (c *c19) runDefaultOut(i int, p *idl.Program, src map[string]string, t target, s optSet, dir string) {
	run := c.run
	defer os.RemoveAll(dir)
	srcDir := filepath.Join(dir, "src")
	if c.writeSources(srcDir, src) != nil {
		return
	}
	j := &job{P: i, Prog: p, Src: src, Tgt: t, Set: s, Recurse: true}
	file := filepath.Join(srcDir, filepath.FromSlash(rootOf(p)))
	def := defaultOutDir(t.Name)
	w1, w2 := filepath.Join(dir, "cwd-no-out"), filepath.Join(dir, "cwd-explicit-out")
	os.MkdirAll(w1, 0o755)
	os.MkdirAll(w2, 0o755)
	a := c.compile(j, w1, file, "", w1)
	b := c.compile(j, w2, file, def, w2)
	run.Eval(2)
	run.Add("default_out_comparisons", 1)
	if a.Exit == -99 || b.Exit == -99 {
		run.Inconclusive(fmt.Sprintf("watchdog in the default output directory experiment (program %d, %s)", i, t.gen(s)))
		return
	}
	run.Distinct("default-out " + t.gen(s))
	if d := compare(b, a); d != nil {
		what := fmt.Sprintf("compiling without -out does not produce, relative to the working directory, what -out %s produces: %s %s", def, d.Kind, d.Rel)
		cls := "acceptance"
		if d.Rel != "" {
			cls = fileClass(t.Name, d.Rel)
		}
		c.pend(&pending{Kind: "location-dependent", Target: t.Name, Label: s.Label, Cls: cls, Tail: "default-out-dir", What: what, W: c.witness(j, d, w2)})
		return
	}
	for rel := range a.Tree {
		if !strings.HasPrefix(rel, def+"/") {
			d := &difference{Kind: "file-set", Rel: rel, Detail: map[string]interface{}{"outside_the_output_directory": def}, FirstRun: b, Other: a}
			c.pend(&pending{Kind: "location-dependent", Target: t.Name, Label: s.Label, Cls: fileClass(t.Name, rel), Tail: "file-outside-the-output-directory",
				What: fmt.Sprintf("the compiler wrote %s into the working directory, outside its output directory %s (with and without -out)", rel, def), W: c.witness(j, d, w2)})
			return
		}
	}
}

// runVariation compiles j once in location variation v; returns the
// observation and the paths to remove afterwards (nil observation = skipped).
func (c *c19) runVariation(j *job, v, srcA, outA, rootFile string) (*obs, []string) {
	switch v {
	case "cwd+absolute-file":
		// same sources, same absolute output dir; the compiler runs from an unrelated cwd
		cwd := filepath.Join(j.Dir, "elsewhere", "cwd")
		os.MkdirAll(cwd, 0o755)
		return c.compile(j, cwd, filepath.Join(srcA, rootFile), outA, outA), []string{outA}
	case "source-root":
		// sources copied below another absolute root at another depth
		srcB := filepath.Join(j.Dir, "B", "deeper", "and_deeper", "x.y", "sources")
		c.writeSources(srcB, j.Src)
		return c.compile(j, srcB, rootFile, "out", filepath.Join(srcB, "out")), []string{filepath.Join(j.Dir, "B")}
	case "out-absolute-nested":
		outN := filepath.Join(j.Dir, "outputs", "nested", "a", "b", "c")
		return c.compile(j, srcA, rootFile, outN, outN), []string{filepath.Join(j.Dir, "outputs")}
	case "out-relative-nested+relative-file-depth":
		// cwd two levels above the sources; file and -out are relative paths with directories
		return c.compile(j, j.Dir, filepath.Join("A", "src", rootFile), filepath.Join("rel", "o", "u", "t"), filepath.Join(j.Dir, "rel", "o", "u", "t")), []string{filepath.Join(j.Dir, "rel")}
	case "out-pre-existing-identical":
		first := c.compile(j, srcA, rootFile, "out", outA)
		c.run.Eval(1)
		if first.Exit == -99 {
			os.RemoveAll(outA)
			return nil, nil
		}
		// second run into the tree left by the first
		return c.compile(j, srcA, rootFile, "out", outA), []string{outA}
	case "cwd-holds-decoy-includes":
		// the working directory holds unrelated files that bear the relative
		// names of the program's includes; the IDL is given by absolute path
		// (even programs) or by a relative path leading out of the cwd
		cwd := filepath.Join(j.Dir, "decoy")
		decoys := map[string]string{}
		for n := range j.Src {
			if n != rootFile {
				decoys[n] = "struct ZzDecoy {\n  1: i32 zz\n}\n"
				decoys[filepath.Base(n)] = decoys[n]
			}
		}
		c.writeSources(cwd, decoys)
		file := filepath.Join(srcA, rootFile)
		if j.P%2 == 1 {
			file = filepath.Join("..", "A", "src", rootFile)
		}
		return c.compile(j, cwd, file, outA, outA), []string{outA, cwd}
	case "cwd-subdir-of-idl-tree":
		// the compiler is started from a subdirectory of the IDL tree, from
		// which the "../x.frugal" includes of the files in sub/ also resolve
		if !j.Tree {
			return nil, nil
		}
		if strings.HasPrefix(rootFile, "app/") {
			// layout "app": started in the root's own directory, the root named
			// by its bare file name; half of the includes lie outside (../zlib)
			return c.compile(j, filepath.Join(srcA, "app"), filepath.Base(rootFile), outA, outA), []string{outA}
		}
		file := filepath.Join(srcA, rootFile)
		if (j.P/2)%2 == 1 {
			file = filepath.Join("..", rootFile)
		}
		return c.compile(j, filepath.Join(srcA, "sub"), file, outA, outA), []string{outA}
	case "out-absolute-same-place":
		// only the spelling of -out varies: the same directory, given by its
		// absolute path instead of the relative "out"
		return c.compile(j, srcA, rootFile, outA, outA), []string{outA}
	case "root-through-symlink":
		// the root IDL is a symbolic link; its target lives in another
		// directory, under another base name, next to files that bear the names
		// of the includes but hold other content.  The program is what the link's
		// own directory says: name of the link, includes next to the link.
		src := filepath.Join(j.Dir, "L", "src")
		elsewhere := filepath.Join(j.Dir, "L", "elsewhere")
		others, decoys := map[string]string{}, map[string]string{"zz_real_root.frugal": j.Src[rootFile]}
		for n, t := range j.Src {
			if n != rootFile {
				others[n] = t
				decoys[n] = "struct ZzDecoy {\n  1: i32 zz\n}\n"
			}
		}
		c.writeSources(src, others)
		c.writeSources(elsewhere, decoys)
		link := filepath.Join(src, filepath.FromSlash(rootFile))
		os.MkdirAll(filepath.Dir(link), 0o755)
		target := filepath.Join(elsewhere, "zz_real_root.frugal")
		if (j.P/2)%2 == 0 {
			target, _ = filepath.Rel(filepath.Dir(link), target)
		}
		if err := os.Symlink(target, link); err != nil {
			return nil, nil
		}
		return c.compile(j, src, rootFile, "out", filepath.Join(src, "out")), []string{filepath.Join(j.Dir, "L")}
	case "out-dir-name":
		// only the NAMES of the directories on the -out path vary (dirnames.go)
		for _, n := range j.OutNames {
			c.run.Add("dir_name_class:out:"+n.Class, 1)
		}
		return c.runDirName(j, v, j.OutNames, j.Dir, srcA, rootFile)
	case "source-root-name":
		// only the NAMES of the directories above the sources vary
		for _, n := range j.SrcNames {
			c.run.Add("dir_name_class:source-root:"+n.Class, 1)
		}
		return c.runDirName(j, v, j.SrcNames, j.Dir, srcA, rootFile)
	case "dot-slash-file":
		// ./file and ./out spelled with a leading dot and a trailing slash
		return c.compile(j, srcA, "./"+rootFile, "./out/", outA), []string{outA}
	}
	return nil, nil
}

// plainAlsoDiffers re-runs the plain option set of the same target a few
// times to decide whether an observed nondeterminism is tied to the option.
func (c *c19) plainAlsoDiffers(j *job) bool {
	pj := *j
	pj.Set = optSet{}
	src := filepath.Join(j.Dir, "P", "src")
	if c.writeSources(src, j.Src) != nil {
		return false
	}
	defer os.RemoveAll(filepath.Join(j.Dir, "P"))
	out := filepath.Join(src, "out")
	ref := c.compile(&pj, src, rootOf(j.Prog), "out", out)
	os.RemoveAll(out)
	for k := 0; k < 6; k++ {
		o := c.compile(&pj, src, rootOf(j.Prog), "out", out)
		os.RemoveAll(out)
		if compare(ref, o) != nil {
			return true
		}
	}
	return false
}

var dirtyKinds = []string{"out-holds-other-option-set", "out-holds-revision-with-more-declarations", "out-holds-revision-with-fewer-declarations", "out-holds-handwritten-siblings", "out-holds-same-names-other-content"}

// revisions renders two neighbours of the program's root file: one with a
// struct, a service and (in .frugal files) a scope added, one with the last
// declaration removed (nothing can refer to the last declaration of the root:
// it is a service, a scope or, failing those, the last constant / struct).
func revisions(p *idl.Program, style idl.Style, src map[string]string) (plus, minus string) {
	root := p.Root()
	nl := "\n"
	plus = src[rootOf(p)] + nl + "struct ZzExtraThing {" + nl + "  1: i32 zzField" + nl + "}" + nl +
		"service ZzExtraService {" + nl + "  ZzExtraThing zzCall(1: ZzExtraThing zzArg)" + nl + "}" + nl
	if root.Ext == ".frugal" {
		plus += "scope ZzExtraScope prefix zz.{zzVar} {" + nl + "  ZzOp: ZzExtraThing" + nl + "}" + nl
	}
	cp := *root
	if n := len(root.Decls); n > 1 && (root.Decls[n-1].Service != nil || root.Decls[n-1].Scope != nil) {
		cp.Decls = root.Decls[:n-1]
	}
	minus = idl.RenderFile(&cp, style)
	return plus, minus
}

// alwaysVars are applied to every key on top of the rotating ones.
var alwaysVars = []string{"cwd-holds-decoy-includes", "cwd-subdir-of-idl-tree", "root-through-symlink", "out-absolute-same-place", "out-dir-name", "source-root-name"}

var allVars = []string{"cwd+absolute-file", "source-root", "out-absolute-nested", "out-relative-nested+relative-file-depth", "out-pre-existing-identical", "dot-slash-file"}

func runC19(tier string) int {
	run := ev.New("C19", tier, "exploration")
	run.Assume("dirty -out directories: only the files the observed compilation emits are compared; files left by the earlier compilation may remain")
	run.Rule("random valid multi-file programs (idl.Generate, CoreConfig scaled to 6-10 files in an include DAG, 15-30 struct-likes per file, up to 4 services and 4 scopes per file) x targets x option sets x -r on/off; every (program,target,options,-r) key is compiled R times in one place (same cwd, same arguments, output removed in between) and once per location variation (cwd + absolute file, other source root and depth, absolute nested -out, relative nested -out with a relative file path, identical pre-existing -out, ./ spellings; and, for every key, directory NAMES on the -out path and above the sources drawn from 8 classes of legal names: percent signs and format verbs, blanks, dots, quotes, non-ASCII letters, shell-special characters, punctuation, backslashes); oracle = equality of {path relative to -out -> sha256}; distinct = (target, option set, -r, output size bucket)")
	run.Assume("in-process sequences: compiler.Compile is called from a child of this binary, which is built against the compiler package of the tree under test; the reference for every call is the CLI in a fresh process")
	run.Assume("sha256 equality of every emitted file is byte identity")
	run.Assume("java generated_annotations=use is excluded: it is dated by design; use_vendor is not exercised (needs vendor annotations)")
	bin, err := emit.FrugalBin()
	if err != nil {
		run.Inconclusive(err.Error())
		return run.Finish()
	}
	c := &c19{run: run, bin: bin, rejected: map[string]int{}}
	nprog, reps, nvars := 6, 3, 2
	if run.Thorough() {
		nprog, reps, nvars = 50, 10, 3 // 100 programs cost 450 CPU-minutes once the directory-name variations were added
	}
	tgts := targets()
	base := filepath.Join(ev.ScratchDir(), "c19")
	var jobs []*job
	var inproc []func() // in-process sequences, one per program (inproc.go)
	var defout []func() // default output directory experiments (runDefaultOut)
	featVectors := map[string]bool{}
	totalFiles, totalDecls := 0, 0
	for i := 0; i < nprog; i++ {
		rng := run.Rand(fmt.Sprintf("c19-program-%d", i))
		p := idl.Generate(rng, bigConfig())
		style := idl.DefaultStyle()
		if i%2 == 1 {
			style = idl.RandomStyle(rng)
		}
		// every second program is laid out as a directory tree (sub/ with ../ includes)
		layout := map[string]string{}
		tree := i%2 == 1 && len(p.Files) >= 3
		var extraFiles map[string]string
		if !tree {
			// nested Python namespaces across the files of one -r run: the root's
			// package is a strict prefix of the package of a file generated later
			nestPythonNamespaces(p)
		}
		if tree {
			variant := "sub"
			if i%4 == 3 {
				variant = "app"
			}
			p, extraFiles = treeProgram(p, layout, variant)
			rootRel[p] = layout[p.Root().FileName()]
		}
		place := func(m map[string]string) map[string]string {
			if m == nil || !tree {
				return m
			}
			out := map[string]string{}
			for n, t := range m {
				out[layout[n]] = t
			}
			for n, t := range extraFiles {
				out[n] = t
			}
			return out
		}
		src := map[string]string{}
		for _, f := range p.Files {
			src[f.FileName()] = idl.RenderFile(f, style)
			totalDecls += len(f.Decls)
		}
		src = place(src)
		totalFiles += len(p.Files)
		featVectors[strings.Join(p.FeatureList(), ",")] = true
		if i < 2 {
			run.Sample(map[string]interface{}{"program": i, "files": len(p.Files), "root": p.Root().FileName(), "features": p.FeatureList(), "root_text_head": clip(src[rootOf(p)], 500)})
		}
		alt := place(sanitizeForHTML(p, style))
		rootPlus, rootMinus := revisions(p, style, src)
		altPlus, altMinus := rootPlus, rootMinus
		if alt != nil {
			// html only: the neighbours of the sanitized program
			altPlus = alt[rootOf(p)] + strings.TrimPrefix(rootPlus, src[rootOf(p)])
			pm := *p
			rm := *p.Root()
			if n := len(rm.Decls); n > 1 && (rm.Decls[n-1].Service != nil || rm.Decls[n-1].Scope != nil) {
				rm.Decls = rm.Decls[:n-1]
			}
			pm.Files = append(append([]*idl.File{}, p.Files[:len(p.Files)-1]...), &rm)
			if am := sanitizeForHTML(&pm, style); am != nil {
				altMinus = am[rm.FileName()]
			}
		}
		{
			i, p, src, rootPlus := i, p, src, rootPlus
			if !run.Thorough() && i%3 == 0 || run.Thorough() && i%4 == 0 {
				for ti, t := range tgts {
					t, dir := t, filepath.Join(base, fmt.Sprintf("p%d", i), fmt.Sprintf("clock%d", ti))
					defout = append(defout, func() { c.runClock(i, p, src, t, dir) })
				}
			}
			inproc = append(inproc, func() {
				c.runInProcess(i, p, src, rootPlus, tgts, filepath.Join(base, fmt.Sprintf("p%d", i), "inproc"))
			})
		}
		// no -out at all: the default output directory, relative to the cwd
		for ti, t := range tgts {
			for si, s := range t.Sets {
				// every second program; quick: every option set of the cheap targets and
				// one rotating set for go; thorough: every option set
				if i%2 == 1 || !run.Thorough() && t.Name == "go" && si != (i+int(run.Seed))%len(t.Sets) {
					continue
				}
				i, p, src, t, s := i, p, src, t, s
				dir := filepath.Join(base, fmt.Sprintf("p%d", i), fmt.Sprintf("defout%d_%d", ti, si))
				defout = append(defout, func() { c.runDefaultOut(i, p, src, t, s, dir) })
			}
		}
		for ti, t := range tgts {
			var sets []optSet
			if run.Thorough() {
				sets = t.Sets
			} else {
				// one option set per (program, target), rotating with program and seed
				sets = []optSet{t.Sets[(i+ti+int(run.Seed))%len(t.Sets)]}
			}
			for si, s := range sets {
				// -r is the normal way to compile a multi-file program; every third key runs without it
				recurse := (i+ti+si)%3 != 0
				kreps, knvars := reps, nvars
				if run.Thorough() && len(sets) > 1 && si != 0 && si != 1+(i+ti)%(len(sets)-1) {
					// thorough: the plain set and one rotating option set of every
					// (program, target) get the full 10 repetitions x 4 locations,
					// the remaining option sets 3 repetitions x 3 locations (cost)
					kreps, knvars = 3, 2
				}
				var vars []string
				for k := 0; k < knvars; k++ {
					vars = append(vars, allVars[(i*7+ti*3+si+k*2+int(run.Seed))%len(allVars)])
				}
				vars = dedupe(append(vars, alwaysVars...))
				var altSrc map[string]string
				if t.Name == "html" {
					altSrc = alt
				}
				dirty := []string{dirtyKinds[0], dirtyKinds[1+(i+ti+si)%2], dirtyKinds[3], dirtyKinds[4]}
				if run.Thorough() {
					dirty = dirtyKinds
					if kreps != reps {
						dirty = []string{dirtyKinds[(i+ti+si)%len(dirtyKinds)]}
					}
				}
				// directory names: three names of three consecutive classes for the -out
				// path and three for the source root; the first class rotates with
				// program, target, option set and seed (3 x 6 programs cover all 8
				// classes for every target in the quick tier)
				nrng := run.Rand(fmt.Sprintf("c19-dirnames-%d-%d-%d", i, ti, si))
				turn := 3*i + ti + si + int(run.Seed%1000)
				jobs = append(jobs, &job{P: i, Prog: p, Src: src, AltSrc: altSrc, Tgt: t, Set: s, Recurse: recurse, Reps: kreps, Vars: vars, Tree: tree,
					NameTurn: turn, OutNames: dirNames(nrng, turn), SrcNames: dirNames(nrng, turn+4),
					Dirty: dirty, RootPlus: rootPlus, RootMinus: rootMinus, AltPlus: altPlus, AltMinus: altMinus,
					Dir: filepath.Join(base, fmt.Sprintf("p%d", i), fmt.Sprintf("j%d_%d", ti, si))})
			}
		}
	}
	run.Set("programs", nprog)
	run.Set("program_files_total", totalFiles)
	run.Set("program_declarations_total", totalDecls)
	run.Set("distinct_feature_vectors", len(featVectors))
	run.Set("keys(program,target,options,-r)", len(jobs))
	run.Set("repetitions_per_key", reps)
	run.Set("location_variations_per_key", nvars)
	if run.Thorough() {
		run.Set("thorough_cost_rule", "plain + one rotating option set per (program,target): 10 repetitions + 3 location variations; other option sets: 3 repetitions + 2 location variations")
	}
	run.Set("location_variation_kinds", append(append([]string{}, allVars...), alwaysVars...))
	run.Set("dirty_out_kinds", dirtyKinds)

	run.Set("in_process_sequences(one child process per program)", len(inproc))
	var iwg sync.WaitGroup
	isem := make(chan struct{}, 4)
	for _, f := range inproc {
		iwg.Add(1)
		go func(f func()) {
			defer iwg.Done()
			isem <- struct{}{}
			defer func() { <-isem }()
			f()
		}(f)
	}
	run.Set("default_output_directory_experiments", len(defout))
	dsem := make(chan struct{}, 6)
	for _, f := range defout {
		iwg.Add(1)
		go func(f func()) {
			defer iwg.Done()
			dsem <- struct{}{}
			defer func() { <-dsem }()
			f()
		}(f)
	}
	ch := make(chan *job)
	var wg sync.WaitGroup
	for w := 0; w < 16; w++ {
		wg.Add(1)
		go func() {
			defer wg.Done()
			for j := range ch {
				c.runJob(j)
			}
		}()
	}
	for _, j := range jobs {
		ch <- j
	}
	close(ch)
	wg.Wait()
	iwg.Wait()
	c.finalize()
	os.RemoveAll(base)
	run.Set("rejected_in_reference_location_by_target", c.rejected)
	return run.Finish()
}

// sanitizeForHTML renders p again with every constant / default map literal
// that has a non-string key replaced by the empty map; nil when nothing changed.
func sanitizeForHTML(p *idl.Program, style idl.Style) map[string]string {
	changed := false
	fix := func(v interface{}) interface{} {
		kvs, ok := v.([]idl.KV)
		if !ok {
			return v
		}
		for _, kv := range kvs {
			if _, isStr := kv.Key.(string); !isStr {
				changed = true
				return []idl.KV{}
			}
		}
		return v
	}
	out := map[string]string{}
	for _, f := range p.Files {
		cp := *f
		cp.Decls = nil
		for _, d := range f.Decls {
			nd := *d
			if d.Const != nil {
				c := *d.Const
				c.Value = fix(c.Value)
				nd.Const = &c
			}
			if d.Struct != nil {
				s := *d.Struct
				s.Fields = nil
				for _, fl := range d.Struct.Fields {
					nf := *fl
					if nf.Default != nil {
						nf.Default = fix(nf.Default)
					}
					s.Fields = append(s.Fields, &nf)
				}
				nd.Struct = &s
			}
			cp.Decls = append(cp.Decls, &nd)
		}
		out[f.FileName()] = idl.RenderFile(&cp, style)
	}
	if !changed {
		return nil
	}
	return out
}

// nestPythonNamespaces gives the root file the Python namespace zzshop.api and
// the first file of the program zzshop.api.models (replacing any py namespace
// they had): with -r the outer package is generated first, the inner one later.
func nestPythonNamespaces(p *idl.Program) {
	if len(p.Files) < 2 {
		return
	}
	set := func(f *idl.File, v string) {
		var ns []*idl.Namespace
		for _, n := range f.Namespaces {
			if n.Lang != "py" {
				ns = append(ns, n)
			}
		}
		f.Namespaces = append(ns, &idl.Namespace{Lang: "py", Value: v})
	}
	set(p.Root(), "zzshop.api")
	set(p.Files[0], "zzshop.api.models")
}

func dedupe(in []string) []string {
	seen := map[string]bool{}
	var out []string
	for _, s := range in {
		if !seen[s] {
			seen[s] = true
			out = append(out, s)
		}
	}
	return out
}
