package main

import (
	"encoding/json"
	"fmt"
	"os"
	"os/exec"
	"path/filepath"
	"strings"
	"time"

	"github.com/Workiva/frugal/compiler"
	"github.com/Workiva/frugal/compiler/globals"

	"verif/idl"
)

// In-process sequences: the compiler used as a library (compiler.Compile, the
// way the project's own tests and embedding build tools use it).  One child
// process compiles the same paths many times -- every target, java first or
// last, repeated, with the root file edited between calls -- and every output
// tree must be byte-identical to what the CLI produces in a fresh process for
// the same (content, options).

type inprocStep struct {
	Op      string `json:"op"` // compile | write
	Label   string `json:"label,omitempty"`
	Rev     string `json:"rev,omitempty"` // content revision the compile sees: A | B
	Target  string `json:"target,omitempty"`
	File    string `json:"file,omitempty"`
	Out     string `json:"out,omitempty"`
	Path    string `json:"path,omitempty"`
	Content string `json:"content,omitempty"`
	Err     string `json:"err,omitempty"`
	Done    bool   `json:"done,omitempty"`
	// clock experiment: full -gen value, option set label, topic delimiter and
	// the instant globals.Now is set to before the call
	Gen      string `json:"gen,omitempty"`
	SetLabel string `json:"set_label,omitempty"`
	Delim    string `json:"delim,omitempty"`
	Now      string `json:"now,omitempty"`
}

// inprocChild executes a script of steps inside this process.
func inprocChild(script string) int {
	b, err := os.ReadFile(script)
	if err != nil {
		fmt.Fprintln(os.Stderr, err)
		return 2
	}
	var steps []*inprocStep
	if err := json.Unmarshal(b, &steps); err != nil {
		fmt.Fprintln(os.Stderr, err)
		return 2
	}
	flush := func() {
		o, _ := json.Marshal(steps)
		os.WriteFile(script+".result", o, 0o644)
	}
	for _, s := range steps {
		switch s.Op {
		case "write":
			if err := os.WriteFile(s.Path, []byte(s.Content), 0o644); err != nil {
				s.Err = err.Error()
			}
		case "compile":
			func() {
				defer func() {
					if r := recover(); r != nil {
						s.Err = fmt.Sprint("panic: ", r) // main.go turns these into diagnostics too
					}
				}()
				gen, delim := s.Target, "."
				if s.Gen != "" {
					gen = s.Gen
				}
				if s.Delim != "" {
					delim = s.Delim
				}
				if s.Now != "" {
					// the compiler's clock: globals.Now is what generators read;
					// Compile resets it to the wall clock when it returns
					if t, err := time.Parse(time.RFC3339, s.Now); err == nil {
						globals.Now = t
					}
				}
				if err := compiler.Compile(compiler.Options{File: s.File, Gen: gen, Out: s.Out, Delim: delim, Recurse: true}); err != nil {
					s.Err = err.Error()
				}
			}()
		}
		s.Done = true
		flush() // the last flushed step is the witness if the process dies
	}
	return 0
}

// runChild executes steps in a child of this binary (working directory dir)
// and returns them with their results; nil (and an INCONCLUSIVE line) when the
// child could not be run to completion.
func (c *c19) runChild(i int, dir string, steps []*inprocStep) []*inprocStep {
	run := c.run
	script := filepath.Join(dir, "script.json")
	b, _ := json.Marshal(steps)
	os.WriteFile(script, b, 0o644)
	cmd := exec.Command(os.Args[0], "inproc-child", script)
	cmd.Dir = dir
	logf, _ := os.Create(filepath.Join(dir, "child.log"))
	cmd.Stdout, cmd.Stderr = logf, logf
	done := make(chan error, 1)
	if err := cmd.Start(); err != nil {
		run.Inconclusive("cannot start the in-process child: " + err.Error())
		return nil
	}
	go func() { done <- cmd.Wait() }()
	var cerr error
	select {
	case cerr = <-done:
	case <-time.After(10 * time.Minute):
		cmd.Process.Kill()
		<-done
		run.Inconclusive(fmt.Sprintf("in-process child of program %d did not finish within 10 minutes", i))
		return nil
	}
	logf.Close()
	rb, err := os.ReadFile(script + ".result")
	var res []*inprocStep
	if err == nil {
		err = json.Unmarshal(rb, &res)
	}
	if err != nil || len(res) != len(steps) {
		run.Inconclusive(fmt.Sprintf("in-process child of program %d left no result (%v, exit %v)", i, err, cerr))
		return nil
	}
	if cerr != nil {
		// the process died in the middle of a Compile call: C11's business (crash), say so
		last := ""
		for _, s := range res {
			if !s.Done {
				last = s.Label + " " + s.Target
				break
			}
		}
		lg, _ := os.ReadFile(filepath.Join(dir, "child.log"))
		run.Inconclusive(fmt.Sprintf("in-process child of program %d died (%v) in step %q: %s", i, cerr, last, clip(string(lg), 400)))
		return nil
	}
	return res
}

// runClock is the time dimension: the same compilation on two calendar days.
// The CLI has no clock injection; in process the compiler's clock is
// globals.Now.  One child per (program, target) compiles every option set of
// the target twice (go: one rotating set in the quick tier); the only option
// documented as dated, java generated_annotations=use, is not among the sets.
func (c *c19) runClock(i int, p *idl.Program, src map[string]string, t target, dir string) {
	run := c.run
	defer os.RemoveAll(dir)
	rootFile := rootOf(p)
	work := filepath.Join(dir, "work-src")
	if c.writeSources(work, src) != nil {
		return
	}
	rootPath := filepath.Join(work, rootFile)
	var steps []*inprocStep
	n := 0
	for si, set := range t.Sets {
		if !run.Thorough() && t.Name == "go" && si != (i+int(run.Seed))%len(t.Sets) {
			continue
		}
		delim := ""
		if len(set.Extra) == 2 && set.Extra[0] == "-delim" {
			delim = set.Extra[1]
		}
		for _, now := range []string{"2021-03-04T05:06:07Z", "2024-11-23T22:58:59Z"} {
			n++
			steps = append(steps, &inprocStep{Op: "compile", Label: "clock", Rev: "A", Target: t.Name, Gen: t.gen(set), SetLabel: set.Label, Delim: delim, Now: now,
				File: rootPath, Out: filepath.Join(dir, "inproc-out", fmt.Sprint(n))})
		}
	}
	res := c.runChild(i, dir, steps)
	if res == nil {
		return
	}
	var clockFirst *obs
	for _, s := range res {
		o := &obs{Exit: 0, Out: s.Err, Root: s.Out, Cwd: "(in process, globals.Now = " + s.Now + ")", Args: []string{"compiler.Compile", "Gen=" + s.Gen, "Recurse=true", "Out=" + s.Out, "File=" + s.File}}
		if s.Err != "" {
			o.Exit = 1
		} else {
			o.Tree, _ = hashTree(s.Out)
			run.Add("files_hashed", len(o.Tree))
		}
		run.Eval(1)
		run.Add("in_process:clock", 1)
		if clockFirst == nil {
			clockFirst = o
			continue
		}
		first := clockFirst
		clockFirst = nil
		run.Distinct("clock " + s.Gen)
		if d := compare(first, o); d != nil {
			cls := "acceptance"
			if d.Rel != "" {
				cls = fileClass(s.Target, d.Rel)
			}
			w := map[string]interface{}{"program_sources": src, "root_file": rootFile, "target": s.Target, "gen": s.Gen,
				"run_a": first.Cwd, "run_b": o.Cwd, "difference": d.Kind, "file": d.Rel}
			if d.Kind == "file-content" {
				a, _ := os.ReadFile(filepath.Join(first.Root, filepath.FromSlash(d.Rel)))
				bb, _ := os.ReadFile(filepath.Join(o.Root, filepath.FromSlash(d.Rel)))
				w["diff"] = firstDiff(string(a), string(bb))
			}
			tail := "calendar-day"
			if s.SetLabel != "" {
				tail += "(" + s.SetLabel + ")"
			}
			c.pend(&pending{Kind: "time-dependent", Target: s.Target, Label: s.SetLabel, Cls: cls, Tail: tail, W: w,
				What: fmt.Sprintf("the same compilation (%s) on two calendar days (globals.Now = 2021-03-04 / 2024-11-23) gives different output: %s %s", s.Gen, d.Kind, d.Rel)})
		}
	}
}

// runInProcess performs the experiment for one program.
func (c *c19) runInProcess(i int, p *idl.Program, src map[string]string, rootPlus string, tgts []target, dir string) {
	run := c.run
	rootFile := rootOf(p)
	revs := map[string]map[string]string{"A": src, "B": {}}
	for n, t := range src {
		revs["B"][n] = t
	}
	revs["B"][rootFile] = rootPlus

	// references: the CLI, one fresh process per (revision, target)
	ref := map[string]*obs{}
	for rev, files := range revs {
		sdir := filepath.Join(dir, "cli-src-"+rev)
		if err := c.writeSources(sdir, files); err != nil {
			run.Inconclusive("cannot write sources: " + err.Error())
			return
		}
		for _, t := range tgts {
			j := &job{P: i, Prog: p, Tgt: t, Set: optSet{}, Recurse: true}
			out := filepath.Join(dir, "cli-out", rev, strings.ReplaceAll(t.Name, ":", "_"))
			o := c.compile(j, sdir, rootFile, out, out)
			run.Eval(1)
			if o.Exit == -99 {
				run.Inconclusive(fmt.Sprintf("watchdog on the CLI reference (program %d, %s)", i, t.Name))
				return
			}
			ref[rev+" "+t.Name] = o
		}
	}

	// the script: java first for even programs, java last for odd ones
	var order []string
	for _, t := range tgts {
		if t.Name != "java" {
			order = append(order, t.Name)
		}
	}
	if i%2 == 0 {
		order = append([]string{"java"}, order...)
	} else {
		order = append(order, "java")
	}
	work := filepath.Join(dir, "work-src")
	c.writeSources(work, src)
	rootPath := filepath.Join(work, rootFile)
	var steps []*inprocStep
	n := 0
	javaSeen := false
	compileAll := func(label, rev string, names []string) {
		for _, t := range names {
			l := label
			if label == "first-pass" && javaSeen && t != "java" {
				l = "first-pass-after-java"
			}
			n++
			steps = append(steps, &inprocStep{Op: "compile", Label: l, Rev: rev, Target: t, File: rootPath, Out: filepath.Join(dir, "inproc-out", fmt.Sprint(n))})
			if t == "java" {
				javaSeen = true
			}
		}
	}
	compileAll("first-pass", "A", order)
	rev := make([]string, len(order))
	for k, t := range order {
		rev[len(order)-1-k] = t
	}
	compileAll("repeated", "A", rev)
	steps = append(steps, &inprocStep{Op: "write", Path: rootPath, Content: revs["B"][rootFile]})
	compileAll("after-edit", "B", order)
	steps = append(steps, &inprocStep{Op: "write", Path: rootPath, Content: src[rootFile]})
	compileAll("after-edit-back", "A", []string{"go", "dart", "html", "java", "py"})

	res := c.runChild(i, dir, steps)
	if res == nil {
		return
	}
	var history []string
	reported := map[string]bool{}
	for _, s := range res {
		if s.Op != "compile" {
			history = append(history, "edit-root")
			continue
		}
		history = append(history, s.Target)
		r := ref[s.Rev+" "+s.Target]
		o := &obs{Exit: 0, Out: s.Err, Root: s.Out, Cwd: "(in process)", Args: []string{"compiler.Compile", "Gen=" + s.Target, "Recurse=true", "Out=" + s.Out, "File=" + s.File}}
		if s.Err != "" {
			o.Exit = 1
		} else {
			t, herr := hashTree(s.Out)
			if herr != nil {
				o.Out = herr.Error()
			}
			o.Tree = t
			run.Add("files_hashed", len(t))
		}
		run.Eval(1)
		run.Add("in_process_compilations", 1)
		run.Add("in_process:"+s.Label, 1)
		run.Distinct("in-process " + s.Target + " " + s.Label)
		d := compare(r, o)
		if d == nil {
			continue
		}
		sig := "C19:in-process:" + s.Target + ":" + s.Label
		if reported[sig] {
			continue
		}
		reported[sig] = true
		// is the CLI itself stable for this (content, target)?  if not, the
		// difference is nondeterminism of the compilation, not of the sequence
		if r.Exit == 0 {
			var tg target
			for _, t := range tgts {
				if t.Name == s.Target {
					tg = t
				}
			}
			sdir := filepath.Join(dir, "cli-src-"+s.Rev)
			var du *difference
			for again := 0; again < 6 && du == nil; again++ {
				out := filepath.Join(dir, "cli-again")
				os.RemoveAll(out)
				f := c.compile(&job{P: i, Prog: p, Tgt: tg, Set: optSet{}, Recurse: true}, sdir, rootFile, out, out)
				if f.Exit != -99 {
					du = compare(r, f)
				}
			}
			if du != nil {
				run.Add("in_process_differences_attributed_to_nondeterminism", 1)
				cls := "acceptance"
				if du.Rel != "" {
					cls = fileClass(s.Target, du.Rel)
				}
				c.pend(&pending{Kind: "nondeterministic", Target: s.Target, Plain: true, Cls: cls,
					What: fmt.Sprintf("two CLI compilations of the same content with the same arguments differ: %s %s", du.Kind, du.Rel),
					W:    map[string]interface{}{"program_sources": revs[s.Rev], "root_file": rootFile, "target": s.Target, "args": r.Args, "difference": du.Kind, "file": du.Rel}})
				continue
			}
		}
		w := map[string]interface{}{
			"program_sources": src, "root_file": rootFile, "root_file_revision_B": revs["B"][rootFile], "features": p.FeatureList(),
			"target": s.Target, "step": s.Label, "revision_seen": s.Rev, "calls_so_far": append([]string{}, history...),
			"reference": map[string]interface{}{"cwd": r.Cwd, "args": r.Args}, "difference": d.Kind, "file": d.Rel,
		}
		if d.Detail != nil {
			w["detail"] = d.Detail
		}
		if d.Kind == "file-content" {
			a, _ := os.ReadFile(filepath.Join(r.Root, filepath.FromSlash(d.Rel)))
			bb, _ := os.ReadFile(filepath.Join(s.Out, filepath.FromSlash(d.Rel)))
			w["diff"] = firstDiff(string(a), string(bb))
		}
		cls := "acceptance"
		if d.Rel != "" {
			cls = fileClass(s.Target, d.Rel)
		}
		c.pend(&pending{Kind: "in-process", Target: s.Target, Cls: cls, Tail: s.Label, W: w,
			What: fmt.Sprintf("compiler.Compile called in one process (%s, call %d of the sequence) does not produce what the CLI produces in a fresh process for the same content and options: %s %s", s.Label, len(history), d.Kind, d.Rel)})
	}
	os.RemoveAll(dir)
}
