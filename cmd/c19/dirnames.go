package main

import (
	"fmt"
	"math/rand"
	"os"
	"path/filepath"
	"strings"
)

// Directory NAMES as a location dimension.  The property quantifies over the
// absolute location of the sources and over the output directory chosen; a
// location is not only a depth and a spelling (relative / absolute / nested)
// but also the characters its directory names are made of.  Build systems and
// CI workspaces produce names with URL-encoded characters (build%20output),
// markers (100%done), blanks, version dots, apostrophes, non-ASCII letters and
// characters that are special to a shell, a format string, a regular
// expression or a template -- none of which is special to a file system.
//
// Every sample below is an ordinary, legal directory name on the host (no
// slash, no NUL, no control character, no leading dash, not "." or "..").
// Each component is pure in its class (apart from letters, digits, '-', '_'),
// so that a refuting observation can be attributed to a class by re-running
// with one component at a time.

type dirNameClass struct {
	Name    string
	Samples []string
}

var dirNameClasses = []dirNameClass{
	{"percent", []string{"100%done", "build%20output", "cov%report", "%s-%d-%v", "50%%off", "tail%", "%q%x%T%+v", "%5d%-3s", "%"}},
	{"blank", []string{"build output", "two  blanks", " lead", "trail ", "My Documents"}},
	{"dot", []string{"v1.2.3", ".hidden", "x.y", "trail.", "a..b", "idl.frugal", "api.thrift", "pkg.go", "..."}},
	{"quote", []string{"it's", `say"hi"`, "back`tick", `'q'`, `""`}},
	{"non-ascii", []string{"café", "日本語", "naïve-ü", "Ωmega", "данные", "sch\u00f6n\u2014lang"}},
	{"shell-special", []string{"$HOME", "${x}", "a&b", "semi;colon", "#hash", "(paren)", "star*", "what?", "[brk]", "{brace}", "~tilde", "a|b", "<lt>gt", "$(id)"}},
	{"punctuation", []string{"plus+", "eq=val", "comma,x", "colon:x", "at@host", "bang!", "caret^", "a=b,c=d"}},
	{"backslash", []string{`back\slash`, `a\nb`, `trail\`, `\\share`, `C:\gen`}},
}

// dirComp is one directory name together with the class it was drawn from.
type dirComp struct {
	Class string
	Name  string
}

// dirNames draws three directory names of three consecutive classes; the first
// class rotates with `turn`, so that eight consecutive turns cover every class
// in every position of the path.
func dirNames(rng *rand.Rand, turn int) []dirComp {
	var out []dirComp
	n := len(dirNameClasses)
	for k := 0; k < 3; k++ {
		cl := dirNameClasses[((turn+k)%n+n)%n]
		out = append(out, dirComp{Class: cl.Name, Name: cl.Samples[rng.Intn(len(cl.Samples))]})
	}
	return out
}

func compNames(cs []dirComp) []string {
	var out []string
	for _, c := range cs {
		out = append(out, c.Name)
	}
	return out
}

func isDirNameVar(v string) bool { return v == "out-dir-name" || v == "source-root-name" }

// runDirName compiles j once with the given directory names in the varied
// place; everything else is as in the reference run (base = the job's scratch
// directory, srcA = the sources of the reference run).
//
//	out-dir-name      sources and cwd of the reference run; -out is a path made
//	                  of the names: relative to the cwd (even turns) or absolute
//	                  below the job's scratch directory (odd turns)
//	source-root-name  the sources live below a root made of the names; even
//	                  turns: cwd = that directory, relative file, -out out (as
//	                  in the reference run); odd turns: unrelated plain cwd,
//	                  absolute file, absolute plain -out
func (c *c19) runDirName(j *job, v string, names []dirComp, base, srcA, rootFile string) (*obs, []string) {
	parts := compNames(names)
	switch v {
	case "out-dir-name":
		rel := filepath.Join(parts...)
		if j.NameTurn%2 == 0 {
			return c.compile(j, srcA, rootFile, rel, filepath.Join(srcA, rel)), []string{filepath.Join(srcA, parts[0])}
		}
		top := filepath.Join(base, "named-out")
		abs := filepath.Join(top, rel)
		return c.compile(j, srcA, rootFile, abs, abs), []string{top}
	case "source-root-name":
		top := filepath.Join(base, "named-src")
		src := filepath.Join(append(append([]string{top}, parts...), "src")...)
		if err := c.writeSources(src, j.Src); err != nil {
			os.RemoveAll(top)
			return nil, nil
		}
		if j.NameTurn%2 == 0 {
			return c.compile(j, src, rootFile, "out", filepath.Join(src, "out")), []string{top}
		}
		cwd := filepath.Join(top, "plain-cwd")
		os.MkdirAll(cwd, 0o755)
		out := filepath.Join(top, "plain-out")
		return c.compile(j, cwd, filepath.Join(src, rootFile), out, out), []string{top}
	}
	return nil, nil
}

// attributeDirName names the classes of directory names that alone reproduce a
// difference seen with the job's three names: one compilation per component,
// each in a fresh copy of the sources (the directories of the refuting runs
// still hold what those runs left).  A control compilation with a plain name
// in the same fresh place comes first: if that one differs from the reference
// too, nothing is attributed.  Returns the tails to report, e.g.
// "out-dir-name(percent)"; when no single component reproduces the difference,
// one tail naming the combination.
func (c *c19) attributeDirName(j *job, v string, ref *obs, rootFile string) []string {
	names := j.OutNames
	if v == "source-root-name" {
		names = j.SrcNames
	}
	differs := func(k int, n dirComp) bool {
		base := filepath.Join(j.Dir, fmt.Sprintf("attribute%d", k))
		defer os.RemoveAll(base)
		src := filepath.Join(base, "A", "src")
		if c.writeSources(src, j.Src) != nil {
			return false
		}
		o, _ := c.runDirName(j, v, []dirComp{n}, base, src, rootFile)
		c.run.Add("dir_name_attribution_compilations", 1)
		return o != nil && o.Exit != -99 && compare(ref, o) != nil
	}
	if differs(0, dirComp{Class: "plain", Name: "plain-name"}) {
		return []string{v}
	}
	var tails, all []string
	for k, n := range names {
		all = append(all, n.Class)
		if differs(k+1, n) {
			tails = append(tails, fmt.Sprintf("%s(%s)", v, n.Class))
		}
	}
	if len(tails) == 0 {
		tails = []string{fmt.Sprintf("%s(combination:%s)", v, strings.Join(all, "+"))}
	}
	return dedupe(tails)
}
