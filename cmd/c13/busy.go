package main

// busyregistry: a request to a silent peer times out while the lock of the
// transport's registry is busy, as it is whenever another request of the same
// transport is registering / unregistering or the inbound reader is looking a
// response up.  "Leave no registration behind" is judged AT THE RETURN of the
// call, not some time later.
//
// The schedule is logical, not timed.  At the yield point "request.timedOut"
// (calling goroutine; the timeout has fired, Request has not returned yet, the
// call's registration is in the registry and only this call removes it) the
// monitor takes the registry's lock through VerifLockRegistry and keeps it
// until the call has come back or a grace period has gone by.  Nothing can
// change the registry while the monitor holds the lock, so
//
//	Request returned before the monitor released the lock
//	  =>  the registration was still in the registry when Request returned.
//
// A call that unregisters before it returns simply comes back right after the
// release (the grace period, 40 ms, is harness-induced delay well inside the
// allowance).  The monitor sets "released" BEFORE it unlocks and the caller
// looks at it right after the return, under one mutex: a call that sees
// "not released" returned while the lock was provably still held.

import (
	"fmt"
	"sync"
	"time"

	frugal "github.com/Workiva/frugal/lib/go"
	"github.com/nats-io/nats.go"

	"verif/rig"
)

const c13BusyGrace = 40 * time.Millisecond

// busyRegistryAvailable: the tree under test has the VerifLockRegistry hook.
func busyRegistryAvailable() bool { return rig.LockRegistry(nil) != nil }

type busyLock struct {
	mu          sync.Mutex
	hookReached bool
	held        bool // the monitor holds the registry's lock (cleared BEFORE the unlock)
	early       bool // the call returned while held
	returned    chan struct{}
	done        chan struct{} // the lock has been given back
}

func attemptBusyRegistry(env *c13env, c c13case, body []byte) *attempt {
	flags := &peerFlags{}
	var tr frugal.FTransport
	cleanup := func() {}
	switch c.Transport {
	case "adapter":
		st := rig.NewScriptTransport()
		st.OnFrame = func([]byte) { flags.markSaw() } // silent peer
		tr = frugal.NewAdapterTransport(st)
	case "nats":
		n := env.seq.Add(1)
		subject := fmt.Sprintf("c13.svc.%d", n)
		// a subscriber is present (no 503 "no responders"); it never replies
		sub, err := env.peer.Subscribe(subject, func(*nats.Msg) { flags.markSaw() })
		if err != nil {
			return &attempt{Returned: true, Harness: "peer subscribe: " + err.Error()}
		}
		env.peer.Flush()
		tr = frugal.NewFNatsTransport(env.client, subject, fmt.Sprintf("_INBOX.c13.%d", n))
		cleanup = func() { sub.Unsubscribe() }
	default:
		return &attempt{Returned: true, Harness: "busyregistry: no registry on transport " + c.Transport}
	}
	if err := tr.Open(); err != nil {
		cleanup()
		return &attempt{Returned: true, Harness: "open: " + err.Error()}
	}
	if c.Transport == "nats" {
		env.client.Flush()
	}
	fctx, payload, want := newCtx(c, body)
	op := opidOf(fctx)
	bl := &busyLock{returned: make(chan struct{}), done: make(chan struct{})}
	c13gate.mu.Lock()
	c13gate.expired[op] = func() {
		// calling goroutine, between the expiry and the return of Request
		unlock := rig.LockRegistry(tr)
		if unlock == nil {
			return
		}
		bl.mu.Lock()
		bl.hookReached, bl.held = true, true
		bl.mu.Unlock()
		go func() {
			defer close(bl.done)
			select {
			case <-bl.returned:
				// the call is back although the lock is held: let its
				// registry-size reader queue up behind the lock, so that it
				// reads the registry before anything that waits to write
				time.Sleep(2 * time.Millisecond)
			case <-time.After(c13BusyGrace):
			}
			bl.mu.Lock()
			bl.held = false
			bl.mu.Unlock()
			unlock()
		}()
	}
	c13gate.mu.Unlock()
	var once sync.Once
	a := invoke(callSpec{c: c, tr: tr, fctx: fctx, payload: payload, want: want, flags: flags, release: func() {},
		post: func() {
			bl.mu.Lock()
			if bl.held {
				bl.early = true
			}
			bl.mu.Unlock()
			once.Do(func() { close(bl.returned) })
		}})
	a.RequestHex = fmt.Sprintf("%x", payload)
	c13gate.mu.Lock()
	delete(c13gate.expired, op)
	c13gate.mu.Unlock()
	bl.mu.Lock()
	reached, early := bl.hookReached, bl.early
	bl.mu.Unlock()
	if reached {
		select {
		case <-bl.done:
		case <-time.After(c13Watchdog):
		}
	}
	switch {
	case !a.Returned:
		// judged as a call that never returns
	case early:
		a.ReturnedWhileLocked = true
		a.RegistryLock = fmt.Sprintf("registry lock taken at request.timedOut of op id %d and still held by the monitor when Request returned; registry size read by the caller right after: %d", op, a.RegAtReturn)
	case reached:
		a.RegistryLock = fmt.Sprintf("registry lock taken at request.timedOut of op id %d, released %s later; Request returned after the release", op, c13BusyGrace)
	case a.TimedOut:
		a.Harness = "the call reported TIMED_OUT without passing the request.timedOut yield point: the registry lock was never taken"
	default:
		a.RegistryLock = "request.timedOut not reached: the registry lock was never taken"
	}
	tr.Close()
	cleanup()
	return a
}
