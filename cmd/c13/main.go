// Command c13 monitors property C13: every Request / Oneway returns within
// its FContext timeout (plus a scheduling allowance), reports TIMED_OUT when
// no response arrived in time and leaves no registration behind — for every
// transport (adapter, NATS, HTTP) and every peer stall pattern.
//
// This is the one property that is about wall time, so wall time is measured,
// defensively: every case is attempted 3 times and only the MINIMUM elapsed
// time is compared with T + max(300 ms, T).
package main

import (
	"encoding/json"
	"fmt"
	"math/rand"
	"os"
	"sort"
	"strings"
	"sync"
	"time"

	frugal "github.com/Workiva/frugal/lib/go"

	"verif/ev"
)

const (
	c13Attempts  = 3
	c13Watchdog  = 10 * time.Second // on top of T: "never returns"
	c13FloorMS   = 300              // scheduling allowance floor
	c13ControlT  = 2 * time.Second
	c13RegPoll   = 500 * time.Millisecond
	c13SubMSSign = "C13:submillisecond-timeout-truncated-to-zero:"
)

func main() { os.Exit(runC13(ev.ArgTier(), ev.ArgRest())) }

// silenceLibraryLog hands the library a zero-valued logger (L is inferred as
// logrus.Logger): its level is 0 = Panic, so warnings and errors are dropped
// before any formatter or writer is touched.  Written this way so that this
// module keeps logrus an indirect requirement (go.mod stays untouched).
func silenceLibraryLog[L any](set func(*L)) { set(new(L)) }

// c13case is one (transport, timeout, stall pattern, operation) tuple.
type c13case struct {
	Transport string `json:"transport"` // adapter | nats | http
	Op        string `json:"op"`        // request | oneway
	Pattern   string `json:"pattern"`   // silent | late:<d> | blockwrite:<hold> | blockflush:<ctx|noctx> | never | stallbody | now | busyregistry | ...
	TimeoutNS int64  `json:"timeout_ns"`
	SubMS     bool   `json:"sub_ms,omitempty"`
	Control   bool   `json:"control,omitempty"`
	// Variant qualifies the transport: "client=<3s|T/2|4T+1s>" builds the HTTP
	// transport on an http.Client with that Timeout of its own.
	Variant string `json:"variant,omitempty"`
}

func (c c13case) T() time.Duration { return time.Duration(c.TimeoutNS) }
func (c c13case) class() string {
	s := c.Transport + "/" + c.Op + "/" + c.Pattern
	if c.Variant != "" {
		s += "/" + c.Variant
	}
	if c.SubMS {
		s += "/sub-ms"
	}
	return s
}

// clientTimeout is the http.Client's own Timeout (0 = none).
func (c c13case) clientTimeout() time.Duration {
	switch c.Variant {
	case "client=3s":
		return 3 * time.Second
	case "client=T/2":
		if c.T() < 2 {
			return 1
		}
		return c.T() / 2
	case "client=4T+1s":
		return 4*c.T() + time.Second
	}
	return 0
}
func (c c13case) key() string { return fmt.Sprintf("%s/T=%s", c.class(), c.T()) }

// bound is the latest acceptable return: T + max(300 ms, T).
func (c c13case) bound() time.Duration {
	a := c13FloorMS * time.Millisecond
	if strings.HasPrefix(c.Pattern, "hangup:") || strings.HasPrefix(c.Pattern, "slowwrite:") {
		// This peer exists to expose a second timeout budget after a stall
		// d < T: the call is then back by T+d < 2T, which the T-proportional
		// part of the allowance would always hide.  Flat 300 ms here (the
		// largest min-of-3 overshoot seen under heavy load is about 5 ms).
		return c.T() + a
	}
	if c.T() > a {
		a = c.T()
	}
	return c.T() + a
}

// lateDelay is the peer's answering delay d (> T) for the late patterns.
func (c c13case) lateDelay() time.Duration {
	switch c.Pattern {
	case "late:T+50ms":
		return c.T() + 50*time.Millisecond
	case "late:2T":
		return 2 * c.T()
	case "late:2T+400ms": // beyond the allowance: an ignored deadline is late on every attempt
		return 2*c.T() + 400*time.Millisecond
	}
	return 0
}

// hangDelay is how long the "hangup" HTTP peer sits on the first request
// before it closes the connection without answering (0 < d < T).
func (c c13case) hangDelay() time.Duration {
	switch c.Pattern {
	case "hangup:0.8T":
		return c.T() * 4 / 5
	case "hangup:T/2":
		return c.T() / 2
	}
	return 0
}

// holdDelay is how long a blocked Write is held (0 = until the case ends).
func (c c13case) holdDelay() time.Duration {
	if c.Pattern == "blockwrite:5T" || c.Pattern == "stallconnect:5T" {
		return 5 * c.T()
	}
	if c.Pattern == "slowwrite:0.8T" { // the write completes before T, then the peer is silent
		return c.T() * 4 / 5
	}
	return 0
}

func (c c13case) isLate() bool { return strings.HasPrefix(c.Pattern, "late:") }

type combo struct{ tr, op, pat string }

// combinations with a transport variant (quick uses the first c13variantQuick)
var c13variants = []struct{ tr, op, pat, variant string }{
	{"http", "request", "never", "client=3s"},
	{"http", "oneway", "never", "client=3s"},
	{"http", "request", "late:2T+400ms", "client=3s"},
	{"http", "oneway", "stallbody", "client=3s"},
	{"http", "request", "never", "client=T/2"},
	{"http", "request", "stallbody", "client=3s"},
	{"http", "oneway", "late:2T+400ms", "client=3s"},
	{"http", "request", "late:2T", "client=4T+1s"},
	{"http", "request", "never", "client=4T+1s"},
	{"http", "oneway", "never", "client=T/2"},
	{"http", "request", "stallbody", "client=T/2"},
}

const c13variantQuick = 5

// cases with hand-picked timeouts (ms): the hangup peer is only decisive when
// its stall d exceeds the 300 ms allowance; the two-step adapter cases are
// cheap on a healthy tree and cost 10 s each when the second call parks.
var c13picked = []struct {
	tr, op, pat     string
	quick, thorough []int
}{
	{"http", "request", "hangup:0.8T", []int{500, 1000}, []int{400, 500, 750, 1000, 1500}},
	{"http", "oneway", "hangup:0.8T", []int{500}, []int{400, 500, 750, 1000, 1500}},
	{"http", "request", "hangup:T/2", nil, []int{100, 700, 1000, 1500}},
	{"http", "oneway", "hangup:T/2", nil, []int{700, 1000}},
	{"adapter", "request", "afterstalledwrite", []int{5, 100}, []int{1, 5, 20, 50, 100, 250, 500, 1000}},
	{"adapter", "oneway", "afterstalledwrite", []int{20, 250}, []int{1, 5, 20, 50, 100, 250, 500, 1000}},
	{"adapter", "request", "afterstalledflush", []int{50}, []int{1, 5, 20, 50, 100, 250, 500, 1000}},
	{"adapter", "oneway", "afterstalledflush", nil, []int{1, 5, 20, 50, 100, 250, 500, 1000}},
	{"adapter", "request", "slowwrite:0.8T", []int{500, 1000}, []int{400, 500, 750, 1000, 1500}},
	{"http", "request", "neverwithlongcall", []int{50, 250}, []int{5, 20, 50, 100, 250, 500}},
	{"http", "oneway", "neverwithlongcall", []int{100}, []int{5, 20, 50, 100, 250, 500}},
	{"adapter", "request", "latehandoff", []int{20, 100}, []int{2, 5, 20, 50, 100, 250, 500}},
	{"nats", "request", "closedpending", []int{100, 400}, []int{20, 50, 100, 250, 400, 1000}},
	{"nats", "request", "brokerlost", []int{100, 400}, []int{20, 50, 100, 250, 400, 1000}},
	{"adapter", "request", "busyregistry", []int{5, 100}, []int{1, 5, 20, 50, 100, 250, 500, 1000}},
	{"nats", "request", "busyregistry", []int{20, 250}, []int{1, 5, 20, 50, 100, 250, 500, 1000}},
}

// concurrent late-answer bursts: callers x calls on one transport, timeout in
// ms; the peer answers every request T+3ms after it saw it
var c13bursts = []struct {
	tr              string
	callers         int
	quick, thorough []int
}{
	{"adapter", 32, []int{2}, []int{2, 3, 5}},
	{"adapter", 8, nil, []int{2, 5}},
	{"adapter", 48, nil, []int{2}},
	{"nats", 16, []int{2}, []int{2, 5}},
	{"nats", 48, nil, []int{3}},
}

// the stall patterns per transport and operation
var c13combos = []combo{
	{"adapter", "request", "silent"},
	{"adapter", "request", "late:T+50ms"},
	{"adapter", "request", "late:2T"},
	{"adapter", "request", "late:2T+400ms"},
	{"adapter", "request", "blockwrite:5T"},
	{"adapter", "request", "blockwrite:forever"},
	{"adapter", "request", "blockflush:ctx"},
	{"adapter", "request", "blockflush:noctx"},
	{"adapter", "oneway", "blockwrite:5T"},
	{"adapter", "oneway", "blockwrite:forever"},
	{"adapter", "oneway", "blockflush:ctx"},
	{"adapter", "oneway", "blockflush:noctx"},
	{"adapter", "request", "stallconnect:5T"},
	{"adapter", "request", "stallconnect:forever"},
	{"adapter", "oneway", "stallconnect:5T"},
	{"adapter", "oneway", "stallconnect:forever"},
	{"nats", "request", "stalledconn"},
	{"nats", "request", "publishrefused"},
	{"nats", "request", "silent"},
	{"nats", "request", "late:T+50ms"},
	{"nats", "request", "late:2T"},
	{"nats", "request", "late:2T+400ms"},
	{"http", "request", "late:T+50ms"},
	{"http", "request", "late:2T"},
	{"http", "request", "late:2T+400ms"},
	{"http", "request", "never"},
	{"http", "request", "stallbody"},
	{"http", "oneway", "late:2T"},
	{"http", "oneway", "late:2T+400ms"},
	{"http", "oneway", "never"},
	{"http", "oneway", "stallbody"},
}

var c13subCombos = []combo{
	{"adapter", "request", "silent"},
	{"adapter", "request", "blockwrite:forever"},
	{"adapter", "request", "blockflush:ctx"},
	{"adapter", "request", "blockflush:noctx"},
	{"adapter", "oneway", "blockwrite:forever"},
	{"adapter", "oneway", "blockflush:ctx"},
	{"adapter", "oneway", "blockflush:noctx"},
	{"nats", "request", "silent"},
	{"http", "request", "never"},
	{"http", "oneway", "never"},
}

var c13controls = []combo{
	{"adapter", "request", "now"},
	{"adapter", "oneway", "now"},
	{"nats", "request", "now"},
	{"http", "request", "now"},
	{"http", "oneway", "now"},
}

var c13stdT = []int{1, 5, 20, 50, 100, 250, 500, 1000} // ms

// c13cases is a pure function of (seed, tier).
func c13cases(rng *rand.Rand, thorough bool) (main, sub, controls []c13case) {
	ms := func(n int) int64 { return int64(time.Duration(n) * time.Millisecond) }
	if !thorough {
		// two timeouts per combination, dealt from seeded shuffles of the
		// standard list so that every T is used about equally often
		var deck []int
		deal := func() int {
			if len(deck) == 0 {
				deck = append([]int(nil), c13stdT...)
				rng.Shuffle(len(deck), func(i, j int) { deck[i], deck[j] = deck[j], deck[i] })
			}
			t := deck[0]
			deck = deck[1:]
			return t
		}
		for _, cb := range c13combos {
			t1 := deal()
			t2 := deal()
			for t2 == t1 {
				t2 = deal()
			}
			main = append(main, c13case{Transport: cb.tr, Op: cb.op, Pattern: cb.pat, TimeoutNS: ms(t1)})
			main = append(main, c13case{Transport: cb.tr, Op: cb.op, Pattern: cb.pat, TimeoutNS: ms(t2)})
		}
		for _, cb := range c13variants[:c13variantQuick] {
			t1 := deal()
			t2 := deal()
			for t2 == t1 {
				t2 = deal()
			}
			main = append(main, c13case{Transport: cb.tr, Op: cb.op, Pattern: cb.pat, Variant: cb.variant, TimeoutNS: ms(t1)})
			main = append(main, c13case{Transport: cb.tr, Op: cb.op, Pattern: cb.pat, Variant: cb.variant, TimeoutNS: ms(t2)})
		}
		for _, cb := range []combo{c13subCombos[0], c13subCombos[7], c13subCombos[8]} {
			sub = append(sub, c13case{Transport: cb.tr, Op: cb.op, Pattern: cb.pat, TimeoutNS: int64(500 * time.Microsecond), SubMS: true})
		}
		for _, cb := range c13controls {
			controls = append(controls, c13case{Transport: cb.tr, Op: cb.op, Pattern: cb.pat, TimeoutNS: int64(c13ControlT), Control: true})
		}
	} else {
		fixed := []int{1, 2, 5, 10, 20, 50, 100, 250, 500, 1000}
		for _, cb := range c13variants {
			for _, t := range []int{1, 5, 20, 50, 100, 250, 500, 1000, 1001 + rng.Intn(500)} {
				main = append(main, c13case{Transport: cb.tr, Op: cb.op, Pattern: cb.pat, Variant: cb.variant, TimeoutNS: ms(t)})
			}
		}
		for _, cb := range c13combos {
			seen := map[int]bool{}
			ts := append([]int(nil), fixed...)
			for _, t := range fixed {
				seen[t] = true
			}
			for len(ts) < len(fixed)+5 {
				t := 1 + rng.Intn(1500)
				if !seen[t] {
					seen[t] = true
					ts = append(ts, t)
				}
			}
			for _, t := range ts {
				main = append(main, c13case{Transport: cb.tr, Op: cb.op, Pattern: cb.pat, TimeoutNS: ms(t)})
			}
		}
		for _, d := range []time.Duration{500 * time.Microsecond, time.Microsecond, 999 * time.Microsecond} {
			for _, cb := range c13subCombos {
				sub = append(sub, c13case{Transport: cb.tr, Op: cb.op, Pattern: cb.pat, TimeoutNS: int64(d), SubMS: true})
			}
		}
		for _, t := range []time.Duration{time.Second, c13ControlT} {
			for _, cb := range c13controls {
				controls = append(controls, c13case{Transport: cb.tr, Op: cb.op, Pattern: cb.pat, TimeoutNS: int64(t), Control: true})
			}
		}
	}
	for _, p := range c13picked {
		ts := p.quick
		if thorough {
			ts = p.thorough
		}
		for _, t := range ts {
			main = append(main, c13case{Transport: p.tr, Op: p.op, Pattern: p.pat, TimeoutNS: ms(t)})
		}
	}
	main = append(main, answeredStalledCases(thorough)...)
	for _, b := range c13bursts {
		ts := b.quick
		if thorough {
			ts = b.thorough
		}
		for _, t := range ts {
			sub = append(sub, c13case{Transport: b.tr, Op: "request", Pattern: "lateburst", Variant: fmt.Sprintf("callers=%d", b.callers), TimeoutNS: ms(t)})
		}
	}
	rng.Shuffle(len(main), func(i, j int) { main[i], main[j] = main[j], main[i] })
	// cases that cost 10 s per attempt when they fail run in the side lane
	keep := main[:0]
	for _, c := range main {
		if c.Pattern == "stalledconn" || c.Pattern == "closedpending" || c.Pattern == "brokerlost" || strings.HasPrefix(c.Pattern, "hangup:") || strings.HasPrefix(c.Pattern, "slowwrite:") || (isAnsweredStalled(c) && c.stallHold() == 0) {
			sub = append(sub, c)
		} else {
			keep = append(keep, c)
		}
	}
	main = keep
	return
}

// stats accumulates evidence; one mutex, so the monitor is never the race.
type c13stats struct {
	mu          sync.Mutex
	overshootMS map[string][]float64 // class -> elapsed-T of every returned attempt
	regSizes    map[string]int
	errClasses  map[string]int
	maxMinOver  float64
	maxMinCase  string
	minHeadroom float64
	minHeadCase string
	hooks       map[string]int
	lateUnseen  int
	controlMS   []float64 // elapsed of the positive controls
}

func runC13(tier string, args []string) int {
	silenceLibraryLog(frugal.SetLogger) // the library logs a warning for every discarded late response
	var replay *c13case
	if len(args) >= 2 && args[0] == "--replay" {
		b, err := os.ReadFile(args[1])
		if err != nil {
			fmt.Println("cannot read replay file:", err)
			return 2
		}
		var f struct {
			Witness struct {
				Case c13case `json:"case"`
			} `json:"witness"`
		}
		if err := json.Unmarshal(b, &f); err != nil || f.Witness.Case.Transport == "" {
			fmt.Println("replay file holds no C13 case:", err)
			return 2
		}
		replay = &f.Witness.Case
		os.Setenv("VERIF_OUT", ev.ScratchDir()) // a replay never overwrites the committed evidence
	}
	run := ev.New("C13", tier, "exploration")
	run.Rule("case = (transport, timeout T, peer stall pattern, Request|Oneway); adapter over a scripted TTransport (silent, response late by T+50ms / 2T / 2T+400ms, Write blocked for 5T or for good, Flush blocked with and without honouring ctx, underlying Open() stalled for 5T / for good while the call is issued), NATS on an embedded broker (subscriber that never replies, or replies late, or the client-broker TCP connection black-holed by a proxy after a healthy control request), or PublishRequest refused by a 4 KiB max_payload broker followed by a request reusing the FContext), a second call issued while the send of an earlier call on the same transport is still stalled, the transport closed / the broker connection cut T/4 into a pending call, the inbound reader held between registry lookup and delivery of call A's answer while A times out and a fresh call B (silent peer) is issued from the same goroutine (B must time out, never see a response), a write that completes after 0.8T followed by silence (bound T+300ms flat), a write-through TTransport whose Write or Flush hands the request to the peer and then stays blocked for 3T+1s or until Close while the peer answers at once or T/4 later (the answer and TIMED_OUT are both accepted; the call must be back within the bound and the registry is read in the calling goroutine right after the return), an HTTP call next to a concurrent call with a much longer timeout on the same transport (ordered through the request-header callback), N concurrent callers x K short-timeout requests on one transport against a peer answering each T+3ms late (slowest call of the burst is what is timed), a request to a silent peer whose timeout fires while the registry's lock is busy (the monitor takes it through VerifLockRegistry at the yield point request.timedOut, i.e. after the expiry and before the call unregisters, and holds it until the call is back or 40 ms have passed: a call that is back before the release has provably left its registration in the registry at return), in the bursts every caller compares, right after its return, the registry size with the number of calls started and not yet returned (finished-before-the-read / started-after-the-read counters, so that the comparison can only err towards silence), HTTP against httptest (handler answering late, never, stalling the body, or stalling d<T then closing the connection unanswered and staying silent on any further connection - bound T+300ms flat there; http.Client without and with a Timeout of its own above / below T); each case attempted 3 times on fresh transports, minimum elapsed compared with T+max(300ms,T); distinct = (transport, op, pattern, T)")
	run.Assume("monotonic clock of the Go runtime; a delay present in all 3 attempts of a case is attributed to the code, not to scheduling")
	run.Assume("rig.ScriptTransport, the embedded nats-server and net/http/httptest behave as scripted")
	run.Assume("goroutine ids parsed from runtime.Stack identify the calling goroutine in the full dump")
	run.Assume("VerifLockRegistry takes the lock that guards every change of the registry: while the monitor holds it no registration is added or removed")

	st := &c13stats{overshootMS: map[string][]float64{}, regSizes: map[string]int{}, errClasses: map[string]int{}, hooks: map[string]int{}, minHeadroom: 1e18}
	frugal.VerifSetHook(func(point string, opid uint64) {
		st.mu.Lock()
		st.hooks[point]++
		st.mu.Unlock()
		c13gate.hook(point, opid)
	})
	defer frugal.VerifSetHook(nil)

	env, err := newC13Env()
	if err != nil {
		run.Inconclusive("cannot start the embedded NATS broker: " + err.Error())
		return run.Finish()
	}
	defer env.stop()
	env.burstCalls = 120
	if run.Thorough() {
		env.burstCalls = 400
	}

	rng := run.Rand("c13")
	mainCases, subCases, controls := c13cases(rng, run.Thorough())
	if !busyRegistryAvailable() {
		// the tree under test predates the VerifLockRegistry hook
		keep := mainCases[:0]
		for _, c := range mainCases {
			if c.Pattern != "busyregistry" {
				keep = append(keep, c)
			}
		}
		mainCases = keep
		run.Set("busy_registry_cases", "skipped: the tree under test has no VerifLockRegistry hook")
	}
	if replay != nil {
		mainCases, subCases, controls = []c13case{*replay}, nil, nil
		run.Distinct("replay")
	}
	bodyRng := run.Rand("c13-body")
	var bodyMu sync.Mutex
	nextBody := func() []byte {
		bodyMu.Lock()
		defer bodyMu.Unlock()
		b := make([]byte, 8+bodyRng.Intn(56))
		bodyRng.Read(b)
		return b
	}

	// positive controls first: a peer that answers at once must yield success,
	// otherwise nothing the harness measures afterwards means anything
	controlsOK := 0
	for _, c := range controls {
		res := runCase(env, c, nextBody)
		judge(run, st, c, &res)
		if res.controlOK {
			controlsOK++
		}
	}
	run.Set("positive_controls", len(controls))
	run.Set("positive_controls_ok", controlsOK)

	workers := 2
	if run.Thorough() {
		workers = 3
	}
	var wg sync.WaitGroup
	lane := func(cases []c13case, n int) {
		ch := make(chan c13case)
		for i := 0; i < n; i++ {
			wg.Add(1)
			go func() {
				defer wg.Done()
				for c := range ch {
					res := runCase(env, c, nextBody)
					judge(run, st, c, &res)
				}
			}()
		}
		wg.Add(1)
		go func() {
			defer wg.Done()
			for _, c := range cases {
				ch <- c
			}
			close(ch)
		}()
	}
	lane(mainCases, workers) // timing lane: low parallelism
	lane(subCases, 1)        // side lane: sub-millisecond and stalled-connection cases (10 s per attempt when they fail)
	wg.Wait()

	// evidence
	st.mu.Lock()
	classes := map[string]interface{}{}
	var names []string
	for k := range st.overshootMS {
		names = append(names, k)
	}
	sort.Strings(names)
	for _, k := range names {
		v := append([]float64(nil), st.overshootMS[k]...)
		sort.Float64s(v)
		classes[k] = map[string]interface{}{"attempts": len(v), "min_elapsed_minus_T_ms": round1(v[0]), "median_elapsed_minus_T_ms": round1(v[len(v)/2]), "max_elapsed_minus_T_ms": round1(v[len(v)-1])}
	}
	run.Set("elapsed_minus_T_per_class", classes)
	if len(st.controlMS) > 0 {
		sort.Float64s(st.controlMS)
		run.Set("positive_control_elapsed_ms", map[string]interface{}{"attempts": len(st.controlMS), "median": round1(st.controlMS[len(st.controlMS)/2]), "max": round1(st.controlMS[len(st.controlMS)-1])})
	}
	run.Set("max_overshoot_min_of_3_ms", round1(st.maxMinOver))
	run.Set("max_overshoot_case", st.maxMinCase)
	if st.minHeadroom < 1e17 {
		run.Set("min_headroom_to_bound_ms", round1(st.minHeadroom))
		run.Set("min_headroom_case", st.minHeadCase)
	}
	run.Set("registry_sizes_observed", st.regSizes)
	run.Set("error_classes_observed", st.errClasses)
	run.Set("hook_points_reached", st.hooks)
	run.Set("late_peer_never_saw_request", st.lateUnseen)
	tset := map[string]bool{}
	for _, cs := range [][]c13case{mainCases, subCases} {
		for _, c := range cs {
			tset[c.T().String()] = true
		}
	}
	var tlist []string
	for t := range tset {
		tlist = append(tlist, t)
	}
	sort.Slice(tlist, func(i, j int) bool {
		a, _ := time.ParseDuration(tlist[i])
		b, _ := time.ParseDuration(tlist[j])
		return a < b
	})
	run.Set("timeouts_used", tlist)
	run.Set("parallelism", workers+1)
	st.mu.Unlock()
	return run.Finish()
}

func round1(f float64) float64 { return float64(int64(f*10+0.5*sign(f))) / 10 }
func sign(f float64) float64 {
	if f < 0 {
		return -1
	}
	return 1
}

// caseResult is what the attempts of one case observed.
type caseResult struct {
	attempts  []*attempt
	controlOK bool
}

func runCase(env *c13env, c c13case, body func() []byte) caseResult {
	var res caseResult
	for i := 0; i < c13Attempts; i++ {
		var a *attempt
		if c.Pattern == "lateburst" {
			a = attemptLateBurst(env, c, env.burstCalls, body())
			a.N = i + 1
			res.attempts = append(res.attempts, a)
			if !a.Returned || a.Harness != "" {
				break
			}
			continue
		}
		if c.Pattern == "busyregistry" {
			a = attemptBusyRegistry(env, c, body())
			a.N = i + 1
			res.attempts = append(res.attempts, a)
			if !a.Returned || a.Harness != "" {
				break
			}
			continue
		}
		switch c.Transport {
		case "adapter":
			if strings.HasPrefix(c.Pattern, "stallconnect:") {
				a = attemptAdapterStalledConnect(c, body())
			} else if c.Pattern == "latehandoff" {
				a = attemptAdapterLateHandoff(c, body())
			} else if strings.HasPrefix(c.Pattern, "afterstalled") {
				a = attemptAdapterAfterStalledSend(c, body())
			} else if isAnsweredStalled(c) {
				a = attemptAdapterAnsweredStalledSend(c, body())
			} else {
				a = attemptAdapter(c, body())
			}
		case "nats":
			if c.Pattern == "stalledconn" {
				a = attemptNatsStalledConn(env, c, body())
			} else if c.Pattern == "publishrefused" {
				a = attemptNatsPublishRefused(env, c, body())
			} else if c.Pattern == "closedpending" || c.Pattern == "brokerlost" {
				a = attemptNatsFaultWhilePending(env, c, body())
			} else {
				a = attemptNats(env, c, body())
			}
		case "http":
			if c.Pattern == "neverwithlongcall" {
				a = attemptHTTPWithLongCall(c, body())
			} else {
				a = attemptHTTP(c, body())
			}
		}
		a.N = i + 1
		res.attempts = append(res.attempts, a)
		if !a.Returned || a.Harness != "" {
			break // a 10 s park is not scheduling noise: no need to repeat it
		}
	}
	return res
}

// judge applies the oracle to one case.
func judge(run *ev.Run, st *c13stats, c c13case, res *caseResult) {
	run.Eval(1)
	run.Distinct(c.key())
	run.Add("attempts", len(res.attempts))
	if c.Control {
		run.Add("cases_control", 1)
	} else if c.SubMS {
		run.Add("cases_sub_ms", 1)
	} else {
		run.Add("cases_timing", 1)
	}
	witness := func(extra map[string]interface{}) map[string]interface{} {
		w := map[string]interface{}{"case": c, "timeout": c.T().String(), "bound": c.bound().String(), "attempts": res.attempts}
		for k, v := range extra {
			w[k] = v
		}
		return w
	}
	sig := func(kind string) string { return "C13:" + kind + ":" + c.class() }

	for _, a := range res.attempts {
		if a.Harness != "" {
			run.Inconclusive(fmt.Sprintf("%s: the scenario could not be set up: %s", c.key(), a.Harness))
			return
		}
		if c.Pattern == "stalledconn" && a.Returned && a.ConnStatus != "CONNECTED" {
			run.Inconclusive(fmt.Sprintf("%s: the NATS client did not stay CONNECTED during the stall (%s)", c.key(), a.ConnStatus))
			return
		}
	}
	minEl := time.Duration(1<<62 - 1)
	st.mu.Lock()
	for _, a := range res.attempts {
		if a.Returned {
			el := time.Duration(a.ElapsedNS)
			if el < minEl {
				minEl = el
			}
			if c.Control {
				st.controlMS = append(st.controlMS, float64(el)/1e6)
			} else {
				st.overshootMS[c.class()] = append(st.overshootMS[c.class()], float64(el-c.T())/1e6)
			}
			st.errClasses[c.Transport+"/"+c.Op+": "+a.ErrClass]++
			st.regSizes[fmt.Sprint(a.RegAfterPoll)]++
			if c.isLate() && !a.PeerSawRequest {
				st.lateUnseen++
			}
		} else {
			st.errClasses[c.Transport+"/"+c.Op+": (never returned)"]++
		}
	}
	st.mu.Unlock()
	if !c.Control {
		run.Sample(map[string]interface{}{"case": c, "attempts": res.attempts})
	}

	// 1. never returns
	for _, a := range res.attempts {
		if a.Returned {
			continue
		}
		switch {
		case !a.Parked:
			run.Inconclusive(fmt.Sprintf("%s: call not back after T+%s but its goroutine is not parked in the transport code (state %q)", c.key(), c13Watchdog, a.GoroutineState))
		case c.SubMS && a.EffTimeoutNS == 0 && !a.HasDeadline:
			run.Violation(c13SubMSSign+c.Transport,
				fmt.Sprintf("a positive timeout below 1 ms behaves as \"no timeout\": SetTimeout(%s) stores 0, ToContext installs no deadline and %s %s never returns (peer %s); still parked in the transport %s after the call", c.T(), c.Transport, c.Op, c.Pattern, c13Watchdog),
				witness(map[string]interface{}{"fctx_timeout_after_SetTimeout": time.Duration(a.EffTimeoutNS).String(), "ToContext_has_deadline": a.HasDeadline}))
		default:
			run.Violation(sig("never-returns"),
				fmt.Sprintf("%s %s with timeout %s had not returned %s after the timeout (peer %s); goroutine parked in the transport code", c.Transport, c.Op, c.T(), c13Watchdog, c.Pattern),
				witness(nil))
		}
		return
	}

	// positive controls: success expected, else the harness cannot be trusted
	if c.Control {
		ok := true
		for _, a := range res.attempts {
			if !a.Success || !a.PayloadOK {
				ok = false
			}
		}
		if !ok {
			b, _ := json.Marshal(res.attempts)
			run.Inconclusive(fmt.Sprintf("positive control %s failed (a peer answering at once must yield success): %s", c.key(), b))
		}
		res.controlOK = ok
		// a leaked registration after a successful call is still a leak
		for _, a := range res.attempts {
			if a.RegAfterPoll > 0 {
				run.Violation("C13:registration-left:"+c.Transport+"/"+c.Op, fmt.Sprintf("%d registration(s) left in the registry of the %s transport after %s returned", a.RegAfterPoll, c.Transport, c.Op), witness(nil))
				break
			}
		}
		return
	}

	// 2. late on every attempt
	over := float64(minEl-c.T()) / 1e6
	head := float64(c.bound()-minEl) / 1e6
	st.mu.Lock()
	if c.Pattern != "busyregistry" { // there the monitor itself keeps the call for c13BusyGrace: not the library's overshoot
		if over > st.maxMinOver {
			st.maxMinOver, st.maxMinCase = over, c.key()
		}
		if head < st.minHeadroom {
			st.minHeadroom, st.minHeadCase = head, c.key()
		}
	}
	st.mu.Unlock()
	if minEl > c.bound() {
		run.Violation(sig("late-return"),
			fmt.Sprintf("%s %s with timeout %s returned after %s at best over %d attempts (bound %s; peer %s)", c.Transport, c.Op, c.T(), minEl.Round(time.Microsecond), len(res.attempts), c.bound(), c.Pattern),
			witness(map[string]interface{}{"min_elapsed": minEl.String()}))
	}

	// 3. wrong error class although the peer provably had not answered
	for _, a := range res.attempts {
		if strings.HasPrefix(c.Pattern, "stallconnect:") || c.Pattern == "publishrefused" {
			break // transport not open yet / send refused at once: any error class is acceptable, only the time bound is asserted
		}
		if strings.HasPrefix(c.Pattern, "hangup:") && !a.Success {
			continue // the peer hung up before T: whatever error reports that is acceptable
		}
		if a.AnsweredBeforeReturn {
			run.Add("attempts_response_raced_timeout", 1)
			continue // response racing the timeout: both outcomes are legal
		}
		if !a.TimedOut {
			run.Violation(sig("wrong-error"),
				fmt.Sprintf("%s %s with timeout %s returned %s although the peer (%s) had not answered; expected TTransportException TIMED_OUT", c.Transport, c.Op, c.T(), a.ErrClass, c.Pattern),
				witness(nil))
			break
		}
	}

	// 4. registration left behind
	for _, a := range res.attempts {
		if a.RegAfterPoll > 0 {
			run.Violation("C13:registration-left:"+c.Transport+"/"+c.Op,
				fmt.Sprintf("%d registration(s) left in the registry of the %s transport after %s returned (%s)", a.RegAfterPoll, c.Transport, c.Op, a.ErrClass), witness(nil))
			break
		}
	}

	// 4'. registration still there at the very moment the call returned
	for _, a := range res.attempts {
		if a.ReturnedWhileLocked {
			run.Violation(sig("registration-left-at-return"),
				fmt.Sprintf("%s %s (timeout %s, silent peer) returned %s while the monitor was still holding the registry's lock, taken after the timeout had fired and before the call unregistered: the call's registration was still in the registry when it returned (registry busy at the moment of the timeout: the removal was put off instead of being completed before the return)", c.Transport, c.Op, c.T(), a.ErrClass),
				witness(nil))
			break
		}
		if c.Pattern == "busyregistry" && a.RegistryLock != "" {
			run.Add("busy_registry_attempts_lock_held_across_expiry", 1)
		}
	}
	for _, a := range res.attempts {
		if a.CallsRegLeft > 0 {
			run.Violation(sig("registration-left-at-return"),
				fmt.Sprintf("%d of %d concurrent %s requests (timeout %s) on one transport returned while the registry held more registrations than there were calls in flight (first: %s)", a.CallsRegLeft, a.Calls, c.Transport, c.T(), a.RegLeftWitness),
				witness(nil))
			break
		}
	}

	// 4''. answered while the client's own send is still stalled: the adapter
	// unregisters before Request returns, so the registry is read in the
	// calling goroutine right after the return, without any grace period
	if isAnsweredStalled(c) {
		for _, a := range res.attempts {
			switch {
			case a.Success:
				run.Add("answered_stalled_send_attempts_returned_the_answer", 1)
			case a.TimedOut:
				run.Add("answered_stalled_send_attempts_timed_out", 1)
			}
			if strings.HasPrefix(a.SendState, "blocked in") {
				run.Add("answered_stalled_send_attempts_send_still_blocked_at_return", 1)
			}
		}
		for _, a := range res.attempts {
			if a.RegAtReturn > 0 {
				run.Violation(sig("registration-left-at-return"),
					fmt.Sprintf("%d registration(s) in the registry of the adapter transport at the moment Request (timeout %s) returned %s; the peer had answered while the client's own send was %s", a.RegAtReturn, c.T(), a.ErrClass, a.SendState),
					witness(nil))
				break
			}
		}
	}

	// 4a. two-step cases: the earlier call (whose send is stalled) must itself be on time
	if strings.HasPrefix(c.Pattern, "afterstalled") {
		minFirst := time.Duration(1<<62 - 1)
		for _, a := range res.attempts {
			if f := a.First; f != nil && f.Returned {
				if el := time.Duration(f.ElapsedNS); el < minFirst {
					minFirst = el
				}
				st.mu.Lock()
				st.overshootMS[c.class()+"/first"] = append(st.overshootMS[c.class()+"/first"], float64(time.Duration(f.ElapsedNS)-c.T())/1e6)
				st.mu.Unlock()
				run.Add("attempts", 1)
				if !f.TimedOut {
					run.Violation(sig("wrong-error-first-call"), fmt.Sprintf("the first adapter request (send stalled) returned %s, expected TIMED_OUT", f.ErrClass), witness(nil))
					break
				}
			}
		}
		if minFirst < time.Duration(1<<62-1) && minFirst > c.bound() {
			run.Violation(sig("late-return-first-call"), fmt.Sprintf("the first adapter request (send stalled, timeout %s) returned after %s at best (bound %s)", c.T(), minFirst.Round(time.Microsecond), c.bound()), witness(nil))
		}
	}

	// 4b. after a refused publish the same FContext must be usable again
	if c.Pattern == "publishrefused" {
		minRe := time.Duration(1<<62 - 1)
		for _, a := range res.attempts {
			r := a.Reuse
			if r == nil {
				continue
			}
			st.mu.Lock()
			if r.Returned {
				st.overshootMS[c.class()+"/reuse"] = append(st.overshootMS[c.class()+"/reuse"], float64(time.Duration(r.ElapsedNS)-c.T())/1e6)
				st.errClasses[c.Transport+"/"+c.Op+" (FContext reused): "+r.ErrClass]++
				st.regSizes[fmt.Sprint(r.RegAfterPoll)]++
			}
			st.mu.Unlock()
			run.Add("attempts", 1)
			if !r.Returned {
				if r.Parked {
					run.Violation(sig("reuse-never-returns"), fmt.Sprintf("after a refused publish, a request reusing the FContext (timeout %s, silent service) had not returned %s after the timeout", c.T(), c13Watchdog), witness(nil))
				} else {
					run.Inconclusive(fmt.Sprintf("%s: reused-FContext call not back after T+%s, goroutine not parked in the transport (state %q)", c.key(), c13Watchdog, r.GoroutineState))
				}
				return
			}
			if el := time.Duration(r.ElapsedNS); el < minRe {
				minRe = el
			}
		}
		if minRe < time.Duration(1<<62-1) && minRe > c.bound() {
			run.Violation(sig("late-return-reused-fctx"), fmt.Sprintf("after a refused publish, a request reusing the FContext (timeout %s, silent service) returned after %s at best (bound %s)", c.T(), minRe.Round(time.Microsecond), c.bound()), witness(nil))
		}
		for _, a := range res.attempts {
			r := a.Reuse
			if r == nil {
				continue
			}
			if !r.TimedOut {
				run.Violation(sig("fctx-unusable-after-refused-publish"),
					fmt.Sprintf("after %s Request failed at publish (%s), a request reusing that FContext against a silent service returned %s (%s) instead of TIMED_OUT", c.Transport, a.ErrText, r.ErrClass, r.ErrText), witness(nil))
				break
			}
			if r.RegAfterPoll > 0 {
				run.Violation("C13:registration-left:"+c.Transport+"/"+c.Op, fmt.Sprintf("%d registration(s) left after the reused-FContext request returned", r.RegAfterPoll), witness(nil))
				break
			}
		}
	}

	// 5. the late response must be discarded harmlessly
	for _, a := range res.attempts {
		if a.FollowUp != "" && a.FollowUp != "ok" {
			run.Violation(sig("late-response-not-harmless"),
				fmt.Sprintf("after the late response to a timed-out %s %s, a fresh request on the same transport did not work: %s", c.Transport, c.Op, a.FollowUp), witness(nil))
			break
		}
		if a.FollowUp == "ok" {
			run.Add("late_followups_ok", 1)
		}
	}
}
