package main

// One more peer stall pattern, the mirror image of blockwrite / blockflush:
//
//   answeredstalledwrite:<3T+1s|forever>
//   answeredstalledflush:<3T+1s|forever>   (variant answer=now | answer=T/4)
//
// adapter Request: the underlying TTransport is write-through.  The client's
// Write (or its Flush) hands the whole request frame to the peer and THEN
// stalls — for 3T+1s, which is beyond every allowance, or for good (until the
// transport is closed) — the way a socket write stalls on its tail, or a
// Flush waits for an acknowledgement that is not coming.  The peer has the
// request and answers it, at once or T/4 later: well inside the timeout.
//
// Two outcomes are legal: the call returns the answer, or it returns
// TIMED_OUT (the send never completed).  Either way it has to be back within
// the bound the other stall classes use, and the registration has to be gone
// when it is back.  A call that comes back only when the stalled Write /
// Flush does is late (3T+1s) or never returns (forever).

import (
	"context"
	"fmt"
	"strings"
	"sync"
	"time"

	frugal "github.com/Workiva/frugal/lib/go"

	"verif/rig"
	"verif/wire"
)

// the answered-but-send-still-stalled cases: quick / thorough timeouts in ms
var c13answered = []struct {
	pat, variant    string
	quick, thorough []int
}{
	{"answeredstalledwrite:3T+1s", "answer=now", []int{20, 250}, []int{1, 5, 20, 50, 100, 250, 500, 1000}},
	{"answeredstalledflush:3T+1s", "answer=T/4", []int{100}, []int{1, 5, 20, 50, 100, 250, 500, 1000}},
	{"answeredstalledflush:forever", "answer=now", []int{50}, []int{1, 5, 20, 50, 100, 250, 500, 1000}},
	{"answeredstalledwrite:forever", "answer=T/4", []int{5}, []int{1, 5, 20, 50, 100, 250, 500, 1000}},
	{"answeredstalledwrite:3T+1s", "answer=T/4", nil, []int{5, 50, 500}},
	{"answeredstalledflush:3T+1s", "answer=now", nil, []int{5, 50, 500}},
	{"answeredstalledflush:forever", "answer=T/4", nil, []int{20, 250}},
	{"answeredstalledwrite:forever", "answer=now", nil, []int{20, 250}},
}

func isAnsweredStalled(c c13case) bool { return strings.HasPrefix(c.Pattern, "answeredstalled") }

// answeredStalledCases is a pure function of the tier.
func answeredStalledCases(thorough bool) (out []c13case) {
	for _, p := range c13answered {
		ts := p.quick
		if thorough {
			ts = p.thorough
		}
		for _, t := range ts {
			out = append(out, c13case{Transport: "adapter", Op: "request", Pattern: p.pat, Variant: p.variant, TimeoutNS: int64(time.Duration(t) * time.Millisecond)})
		}
	}
	return
}

// stallHold is how long the client's own Write / Flush stays blocked after
// the bytes went out (0 = until the transport is closed).
func (c c13case) stallHold() time.Duration {
	if strings.HasSuffix(c.Pattern, ":3T+1s") {
		return 3*c.T() + time.Second // bound is T+max(300ms,T): at least 700 ms beyond it
	}
	return 0
}

// answerDelay is how long the peer takes to answer once it has the request.
func (c c13case) answerDelay() time.Duration {
	if c.Variant == "answer=T/4" {
		return c.T() / 4
	}
	return 0
}

// deliverThenStallTransport is a write-through ScriptTransport: the bytes of
// a Write (mode "write") or of a Flush (mode "flush") reach the peer first,
// then that call blocks until the gate opens or the transport is closed.  A
// blocked Flush ignores its context (the peer stalls for good).
type deliverThenStallTransport struct {
	*rig.ScriptTransport
	inWrite bool // stall in Write (else in Flush)

	mu       sync.Mutex
	entered  bool // the stalling call has been entered (bytes are about to go out)
	returned bool // the stalling call has returned
	gate     chan struct{}
	once     sync.Once
	stalling chan struct{} // closed when the bytes are out and the call is about to park
	sOnce    sync.Once
}

func newDeliverThenStall(inWrite bool) *deliverThenStallTransport {
	return &deliverThenStallTransport{ScriptTransport: rig.NewScriptTransport(), inWrite: inWrite, gate: make(chan struct{}), stalling: make(chan struct{})}
}

func (d *deliverThenStallTransport) openGate() { d.once.Do(func() { close(d.gate) }) }

func (d *deliverThenStallTransport) park() {
	d.sOnce.Do(func() { close(d.stalling) })
	<-d.gate
	d.mu.Lock()
	d.returned = true
	d.mu.Unlock()
}

func (d *deliverThenStallTransport) enter() {
	d.mu.Lock()
	d.entered = true
	d.mu.Unlock()
}

// state describes the client's own send at this moment.
func (d *deliverThenStallTransport) state() string {
	d.mu.Lock()
	defer d.mu.Unlock()
	switch {
	case !d.entered:
		return "not started"
	case d.returned:
		return "completed"
	}
	if d.inWrite {
		return "blocked in Write (bytes delivered)"
	}
	return "blocked in Flush (bytes delivered)"
}

func (d *deliverThenStallTransport) Write(p []byte) (int, error) {
	if !d.inWrite {
		return d.ScriptTransport.Write(p)
	}
	d.enter()
	n, err := d.ScriptTransport.Write(p)
	if err != nil {
		return n, err
	}
	// write-through: the peer has the frame now
	if err := d.ScriptTransport.Flush(context.Background()); err != nil {
		return 0, err
	}
	d.park()
	return n, nil
}

func (d *deliverThenStallTransport) Flush(ctx context.Context) error {
	if d.inWrite {
		return d.ScriptTransport.Flush(ctx)
	}
	d.enter()
	if err := d.ScriptTransport.Flush(ctx); err != nil {
		return err
	}
	d.park()
	return nil
}

// Close ends the stall, as closing a socket does.
func (d *deliverThenStallTransport) Close() error {
	d.openGate()
	return d.ScriptTransport.Close()
}

func attemptAdapterAnsweredStalledSend(c c13case, body []byte) *attempt {
	st := newDeliverThenStall(strings.HasPrefix(c.Pattern, "answeredstalledwrite:"))
	flags := &peerFlags{}
	frames := make(chan []byte, 8)
	st.OnFrame = func(f []byte) {
		flags.markSaw()
		select {
		case frames <- f:
		default:
		}
	}
	tr := frugal.NewAdapterTransport(st)
	if err := tr.Open(); err != nil {
		return &attempt{Returned: true, Harness: "open: " + err.Error()}
	}
	stop := make(chan struct{})
	fctx, payload, want := newCtx(c, body)
	peerDone := make(chan struct{})
	go func() { // the peer: has the request, answers it in time
		defer close(peerDone)
		select {
		case f := <-frames:
			if !sleepOr(c.answerDelay(), stop) {
				return
			}
			if h, b, err := wire.ParseFrame(f); err == nil {
				flags.markAnswered()
				st.Feed(respFrame(h["_opid"], b))
			}
		case <-stop:
		}
	}()
	holdDone := make(chan struct{})
	go func() { // the stall of the client's own send
		defer close(holdDone)
		select {
		case <-st.stalling:
			if h := c.stallHold(); h > 0 && sleepOr(h, stop) {
				st.openGate()
			}
		case <-stop:
		}
	}()
	var sendState string
	a := invoke(callSpec{c: c, tr: tr, fctx: fctx, payload: payload, want: want, flags: flags,
		post:    func() { sendState = st.state() },
		release: func() { st.openGate() }})
	a.RequestHex = fmt.Sprintf("%x", payload)
	if a.Returned {
		a.SendState = sendState
	} else {
		a.SendState = "blocked until the monitor released it (call had not returned)"
	}
	close(stop)
	st.openGate()
	<-peerDone
	<-holdDone
	tr.Close()
	return a
}
