package main

// Concurrent late-answer workload: N goroutines issue short-timeout requests
// over ONE transport against a peer that answers every request a few
// milliseconds after the caller's timeout, so that responses for already
// unregistered op ids reach the registry while other calls register and
// unregister.  Every call must still come back within its bound.

import (
	"encoding/base64"
	"fmt"
	"io"
	"net/http"
	"net/http/httptest"
	"sort"
	"strconv"
	"strings"
	"sync"
	"sync/atomic"
	"time"

	frugal "github.com/Workiva/frugal/lib/go"
	"github.com/apache/thrift/lib/go/thrift"
	"github.com/nats-io/nats.go"

	"verif/rig"
	"verif/wire"
)

const c13BurstLate = 3 * time.Millisecond // the peer answers T + this after it saw the request

func (c c13case) burstCallers() int {
	if n, err := strconv.Atoi(strings.TrimPrefix(c.Variant, "callers=")); err == nil && n > 0 {
		return n
	}
	return 8
}

func attemptLateBurst(env *c13env, c c13case, callsPerCaller int, body []byte) *attempt {
	var fmu sync.Mutex
	byOp := map[string]*peerFlags{}
	flagsOf := func(opid string) *peerFlags {
		fmu.Lock()
		defer fmu.Unlock()
		f := byOp[opid]
		if f == nil {
			f = &peerFlags{}
			byOp[opid] = f
		}
		return f
	}
	d := c.T() + c13BurstLate
	var tr frugal.FTransport
	var timers sync.WaitGroup
	stop := make(chan struct{})
	var cleanup func()
	switch c.Transport {
	case "adapter":
		st := rig.NewScriptTransport()
		st.OnFrame = func(f []byte) {
			h, b, err := wire.ParseFrame(f)
			if err != nil {
				return
			}
			fl := flagsOf(h["_opid"])
			fl.markSaw()
			timers.Add(1)
			go func() {
				defer timers.Done()
				if sleepOr(d, stop) {
					fl.markAnswered()
					st.Feed(respFrame(h["_opid"], b))
				}
			}()
		}
		tr = frugal.NewAdapterTransport(st)
		cleanup = func() {}
	case "nats":
		n := env.seq.Add(1)
		subject := fmt.Sprintf("c13.svc.%d", n)
		sub, err := env.peer.Subscribe(subject, func(m *nats.Msg) {
			h, b, err := wire.ParseFrame(m.Data)
			if err != nil {
				return
			}
			fl := flagsOf(h["_opid"])
			fl.markSaw()
			timers.Add(1)
			go func() {
				defer timers.Done()
				if sleepOr(d, stop) {
					fl.markAnswered()
					env.peer.Publish(m.Reply, respFrame(h["_opid"], b))
				}
			}()
		})
		if err != nil {
			return &attempt{Returned: true, Harness: "peer subscribe: " + err.Error()}
		}
		env.peer.Flush()
		tr = frugal.NewFNatsTransport(env.client, subject, fmt.Sprintf("_INBOX.c13.%d", n))
		cleanup = func() { sub.Unsubscribe() }
	}
	if err := tr.Open(); err != nil {
		cleanup()
		return &attempt{Returned: true, Harness: "open: " + err.Error()}
	}
	env.client.Flush()

	callers := c.burstCallers()
	results := make([][]*attempt, callers)
	// Registration accounting at every return.  A registration exists only
	// between the start of its Request and that Request's return, so at any
	// instant  registry size <= calls started - calls returned.  The caller
	// that has just come back reads "returned" (its own return included), then
	// the registry size, then "started": returned can only grow and started
	// can only grow, so started(after) - returned(before) is an upper bound of
	// the calls in flight at the instant the size was read, whatever the
	// scheduling.  A larger size means a call has returned and left its
	// registration in the registry.
	var started, returned atomic.Int64
	var leftMu sync.Mutex
	left, leftFirst := 0, ""
	var wg sync.WaitGroup
	burstStart := time.Now()
	for g := 0; g < callers; g++ {
		wg.Add(1)
		go func(g int) {
			defer wg.Done()
			for k := 0; k < callsPerCaller; k++ {
				fctx, payload, want := newCtx(c, body)
				fl := flagsOf(fctx.RequestHeaders()["_opid"])
				started.Add(1)
				r := invoke(callSpec{c: c, tr: tr, fctx: fctx, payload: payload, want: want, flags: fl, shared: true, release: func() {},
					post: func() {
						fin := returned.Add(1)
						size := int64(frugal.VerifRegistrySize(tr))
						if inflight := started.Load() - fin; size > inflight {
							leftMu.Lock()
							left++
							if leftFirst == "" {
								leftFirst = fmt.Sprintf("caller %d call %d (op id %s) back: registry size %d, at most %d calls in flight", g, k, fctx.RequestHeaders()["_opid"], size, inflight)
							}
							leftMu.Unlock()
						}
					}})
				results[g] = append(results[g], r)
				if !r.Returned {
					return // wedged: this caller is gone
				}
			}
		}(g)
	}
	wg.Wait()
	burstWall := time.Since(burstStart)
	close(stop)
	timers.Wait()

	// aggregate into one attempt
	a := &attempt{Returned: true, TimedOut: true}
	var els []int64
	for _, rs := range results {
		for _, r := range rs {
			a.Calls++
			if a.Calls == 1 {
				a.EffTimeoutNS, a.HasDeadline = r.EffTimeoutNS, r.HasDeadline
			}
			if !r.Returned {
				a.CallsNeverReturned++
				if a.Returned || (!a.Parked && r.Parked) {
					a.Parked, a.GoroutineState, a.Goroutine = r.Parked, r.GoroutineState, r.Goroutine
				}
				a.Returned = false
				continue
			}
			els = append(els, r.ElapsedNS)
			switch {
			case r.TimedOut:
				a.CallsTimedOut++
			case r.AnsweredBeforeReturn:
				a.CallsRaced++ // the late answer overtook a late timer: both outcomes legal
			default:
				if a.TimedOut {
					a.TimedOut = false
					a.ErrClass, a.ErrText = r.ErrClass, r.ErrText
				}
			}
		}
	}
	if len(els) > 0 {
		sort.Slice(els, func(i, j int) bool { return els[i] < els[j] })
		a.ElapsedNS = els[len(els)-1] // the slowest call of the burst
		a.Elapsed = time.Duration(a.ElapsedNS).Round(time.Microsecond).String()
		a.MedianCall = time.Duration(els[len(els)/2]).Round(time.Microsecond).String()
	}
	a.BurstWall = burstWall.Round(time.Millisecond).String()
	leftMu.Lock()
	a.CallsRegLeft, a.RegLeftWitness = left, leftFirst
	leftMu.Unlock()
	if a.TimedOut {
		a.ErrClass = fmt.Sprintf("TTransportException(type=%d)", frugal.TRANSPORT_EXCEPTION_TIMED_OUT)
	}
	if a.Returned {
		a.RegAtReturn = frugal.VerifRegistrySize(tr)
		a.RegAfterPoll = a.RegAtReturn
		for dl := time.Now().Add(c13RegPoll); a.RegAfterPoll > 0 && time.Now().Before(dl); {
			time.Sleep(5 * time.Millisecond)
			a.RegAfterPoll = frugal.VerifRegistrySize(tr)
		}
		a.PeerSawRequest = true
		tr.Close() // with a wedged registry Close may park too: only on the healthy path
	}
	cleanup()
	return a
}

// ---------------------------------------------------------------- adapter, answer handed over late

// hookGate parks the library's inbound reader at the yield point
// "send.begin" (between the registry lookup and the send on the result
// channel) for chosen op ids, and reports "request.registered".
type hookGate struct {
	mu      sync.Mutex
	park    map[uint64]chan struct{} // released by closing
	arrived map[uint64]chan struct{} // closed when the reader is parked
	reg     map[uint64]chan struct{} // closed when the op id has been registered
	expired map[uint64]func()        // run in the calling goroutine at "request.timedOut", before Request returns
}

var c13gate = &hookGate{park: map[uint64]chan struct{}{}, arrived: map[uint64]chan struct{}{}, reg: map[uint64]chan struct{}{}, expired: map[uint64]func(){}}

func (g *hookGate) hook(point string, opid uint64) {
	switch point {
	case "send.begin":
		g.mu.Lock()
		p, a := g.park[opid], g.arrived[opid]
		delete(g.arrived, opid)
		g.mu.Unlock()
		if p != nil {
			if a != nil {
				close(a)
			}
			<-p
		}
	case "request.registered":
		g.mu.Lock()
		r := g.reg[opid]
		delete(g.reg, opid)
		g.mu.Unlock()
		if r != nil {
			close(r)
		}
	case "request.timedOut":
		g.mu.Lock()
		f := g.expired[opid]
		delete(g.expired, opid)
		g.mu.Unlock()
		if f != nil {
			f()
		}
	}
}

func opidOf(fctx frugal.FContext) uint64 {
	n, _ := strconv.ParseUint(fctx.RequestHeaders()["_opid"], 10, 64)
	return n
}

// attemptAdapterLateHandoff: the peer answers call A at once, but the inbound
// reader is held after it looked A's registration up and before it delivers;
// A times out and returns; call B (fresh FContext, the peer never answers it)
// is issued from the same goroutine; once B is registered the reader is let
// go and delivers A's answer to whatever it looked up.  B got no response in
// time: it must report TIMED_OUT at its own bound.
func attemptAdapterLateHandoff(c c13case, body []byte) *attempt {
	st := rig.NewScriptTransport()
	tr := frugal.NewAdapterTransport(st)
	flagsA, flagsB := &peerFlags{}, &peerFlags{}
	fctxA, payloadA, _ := newCtx(c, body)
	fctxB, payloadB, wantB := newCtx(c, body)
	opA, opB := opidOf(fctxA), opidOf(fctxB)
	st.OnFrame = func(f []byte) {
		h, b, err := wire.ParseFrame(f)
		if err != nil {
			return
		}
		if h["_opid"] == fmt.Sprint(opA) {
			flagsA.markAnswered()
			st.Feed(respFrame(h["_opid"], b)) // A is answered at once
			return
		}
		flagsB.markSaw() // B: silent
	}
	if err := tr.Open(); err != nil {
		return &attempt{Returned: true, Harness: "open: " + err.Error()}
	}
	park, arrived, regB := make(chan struct{}), make(chan struct{}), make(chan struct{})
	c13gate.mu.Lock()
	c13gate.park[opA], c13gate.arrived[opA], c13gate.reg[opB] = park, arrived, regB
	c13gate.mu.Unlock()
	var once sync.Once
	letGo := func() { once.Do(func() { close(park) }) }
	stop := make(chan struct{})
	held := make(chan string, 1)
	go func() { // the schedule
		select {
		case <-arrived:
		case <-stop:
			held <- "no: the reader never reached send.begin for A"
			return
		}
		select {
		case <-regB:
			time.Sleep(time.Millisecond) // B is in its select by now
			letGo()
			held <- "yes: released 1ms after B registered"
		case <-stop:
			held <- "yes, but B never registered"
		}
	}()
	first := &attempt{}
	a := invoke(callSpec{c: c, tr: tr, fctx: fctxB, payload: payloadB, want: wantB, flags: flagsB, preTime: c.T() + c13Watchdog,
		pre: func() {
			start := time.Now()
			res, err := tr.Request(fctxA, payloadA)
			first.Returned = true
			first.ElapsedNS = int64(time.Since(start))
			first.Elapsed = time.Duration(first.ElapsedNS).Round(time.Microsecond).String()
			first.ErrClass, first.ErrText, first.TimedOut, first.Success = classify(res, err)
		},
		release: func() {
			letGo()
			flagsB.markAnswered()
			st.Feed(respFrame(fmt.Sprint(opB), body))
		}})
	a.RequestHex = fmt.Sprintf("A=%x B=%x", payloadA, payloadB)
	close(stop)
	letGo()
	select {
	case a.ReaderHeld = <-held:
	case <-time.After(time.Second):
	}
	c13gate.mu.Lock()
	delete(c13gate.park, opA)
	delete(c13gate.arrived, opA)
	delete(c13gate.reg, opB)
	c13gate.mu.Unlock()
	if a.Returned {
		a.First = first
	}
	tr.Close()
	return a
}

// ---------------------------------------------------------------- HTTP, a short call next to a long one

// attemptHTTPWithLongCall: two calls in flight on ONE HTTP transport against
// a silent server: the case's call (timeout T) and a companion with timeout
// 2T+1s.  The request-header callback of the builder is the ordering point:
// the short call waits in it until the long call has reached its own callback
// (i.e. has passed everything a call does before building its headers).
// The short call must time out by its own timeout.
func attemptHTTPWithLongCall(c c13case, body []byte) *attempt {
	flags := &peerFlags{}
	release := make(chan struct{})
	var once sync.Once
	open := func() { once.Do(func() { close(release) }) }
	srv := httptest.NewServer(http.HandlerFunc(func(w http.ResponseWriter, r *http.Request) {
		raw, _ := io.ReadAll(r.Body)
		frame, _ := base64.StdEncoding.DecodeString(string(raw))
		h, b, err := wire.ParseFrame(frame)
		if err != nil {
			http.Error(w, "bad frame", http.StatusBadRequest)
			return
		}
		flags.markSaw()
		<-release // silent until the attempt is over
		io.WriteString(w, base64.StdEncoding.EncodeToString(respFrame(h["_opid"], b)))
	}))
	long := c
	long.TimeoutNS = int64(2*c.T() + time.Second)
	fctx, payload, want := newCtx(c, body)
	fctxL, payloadL, _ := newCtx(long, body)
	opS, opL := fctx.RequestHeaders()["_opid"], fctxL.RequestHeaders()["_opid"]
	shortIn, longIn := make(chan struct{}), make(chan struct{})
	var onceS, onceL sync.Once
	cb := func(fc frugal.FContext) map[string]string {
		op, _ := fc.RequestHeader("_opid")
		switch op {
		case opS:
			onceS.Do(func() { close(shortIn) })
			select {
			case <-longIn:
			case <-time.After(100 * time.Millisecond): // harness-induced delay, kept well below the 300 ms allowance
			}
		case opL:
			onceL.Do(func() { close(longIn) })
		}
		return nil
	}
	ht := &http.Transport{}
	tr := frugal.NewFHTTPTransportBuilder(&http.Client{Transport: ht}, srv.URL).WithRequestHeadersFromFContext(cb).Build()
	tr.Open()
	stop := make(chan struct{})
	longDone := make(chan *attempt, 1)
	go func() {
		l := &attempt{}
		select {
		case <-shortIn:
		case <-stop:
			longDone <- l
			return
		}
		start := time.Now()
		var res thrift.TTransport
		var err error
		if c.Op == "request" {
			res, err = tr.Request(fctxL, payloadL)
		} else {
			err = tr.Oneway(fctxL, payloadL)
		}
		l.Returned = true
		l.ElapsedNS = int64(time.Since(start))
		l.Elapsed = time.Duration(l.ElapsedNS).Round(time.Microsecond).String()
		l.ErrClass, l.ErrText, l.TimedOut, l.Success = classify(res, err)
		longDone <- l
	}()
	a := invoke(callSpec{c: c, tr: tr, fctx: fctx, payload: payload, want: want, flags: flags, release: open})
	a.RequestHex = fmt.Sprintf("%x", payload)
	select {
	case <-longIn:
		a.ReaderHeld = "" // unused here
		a.Companion = fmt.Sprintf("companion call (timeout %s) had reached its header callback", long.T())
	default:
		a.Companion = "companion call had NOT started when the short call returned"
	}
	close(stop)
	open() // the server now answers: the companion comes back
	select {
	case l := <-longDone:
		a.First = l
	case <-time.After(long.T() + c13Watchdog):
		a.Companion += "; companion call never returned"
	}
	ht.CloseIdleConnections()
	srv.CloseClientConnections()
	srv.Close()
	return a
}
