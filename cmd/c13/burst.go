package main

// Concurrent late-answer workload: N goroutines issue short-timeout requests
// over ONE transport against a peer that answers every request a few
// milliseconds after the caller's timeout, so that responses for already
// unregistered op ids reach the registry while other calls register and
// unregister.  Every call must still come back within its bound.

import (
	"fmt"
	"sort"
	"strconv"
	"strings"
	"sync"
	"time"

	frugal "github.com/Workiva/frugal/lib/go"
	"github.com/nats-io/nats.go"

	"verif/rig"
	"verif/wire"
)

const c13BurstLate = 3 * time.Millisecond // the peer answers T + this after it saw the request

func (c c13case) burstCallers() int {
	if n, err := strconv.Atoi(strings.TrimPrefix(c.Variant, "callers=")); err == nil && n > 0 {
		return n
	}
	return 8
}

func attemptLateBurst(env *c13env, c c13case, callsPerCaller int, body []byte) *attempt {
	var fmu sync.Mutex
	byOp := map[string]*peerFlags{}
	flagsOf := func(opid string) *peerFlags {
		fmu.Lock()
		defer fmu.Unlock()
		f := byOp[opid]
		if f == nil {
			f = &peerFlags{}
			byOp[opid] = f
		}
		return f
	}
	d := c.T() + c13BurstLate
	var tr frugal.FTransport
	var timers sync.WaitGroup
	stop := make(chan struct{})
	var cleanup func()
	switch c.Transport {
	case "adapter":
		st := rig.NewScriptTransport()
		st.OnFrame = func(f []byte) {
			h, b, err := wire.ParseFrame(f)
			if err != nil {
				return
			}
			fl := flagsOf(h["_opid"])
			fl.markSaw()
			timers.Add(1)
			go func() {
				defer timers.Done()
				if sleepOr(d, stop) {
					fl.markAnswered()
					st.Feed(respFrame(h["_opid"], b))
				}
			}()
		}
		tr = frugal.NewAdapterTransport(st)
		cleanup = func() {}
	case "nats":
		n := env.seq.Add(1)
		subject := fmt.Sprintf("c13.svc.%d", n)
		sub, err := env.peer.Subscribe(subject, func(m *nats.Msg) {
			h, b, err := wire.ParseFrame(m.Data)
			if err != nil {
				return
			}
			fl := flagsOf(h["_opid"])
			fl.markSaw()
			timers.Add(1)
			go func() {
				defer timers.Done()
				if sleepOr(d, stop) {
					fl.markAnswered()
					env.peer.Publish(m.Reply, respFrame(h["_opid"], b))
				}
			}()
		})
		if err != nil {
			return &attempt{Returned: true, Harness: "peer subscribe: " + err.Error()}
		}
		env.peer.Flush()
		tr = frugal.NewFNatsTransport(env.client, subject, fmt.Sprintf("_INBOX.c13.%d", n))
		cleanup = func() { sub.Unsubscribe() }
	}
	if err := tr.Open(); err != nil {
		cleanup()
		return &attempt{Returned: true, Harness: "open: " + err.Error()}
	}
	env.client.Flush()

	callers := c.burstCallers()
	results := make([][]*attempt, callers)
	var wg sync.WaitGroup
	burstStart := time.Now()
	for g := 0; g < callers; g++ {
		wg.Add(1)
		go func(g int) {
			defer wg.Done()
			for k := 0; k < callsPerCaller; k++ {
				fctx, payload, want := newCtx(c, body)
				fl := flagsOf(fctx.RequestHeaders()["_opid"])
				r := invoke(callSpec{c: c, tr: tr, fctx: fctx, payload: payload, want: want, flags: fl, shared: true, release: func() {}})
				results[g] = append(results[g], r)
				if !r.Returned {
					return // wedged: this caller is gone
				}
			}
		}(g)
	}
	wg.Wait()
	burstWall := time.Since(burstStart)
	close(stop)
	timers.Wait()

	// aggregate into one attempt
	a := &attempt{Returned: true, TimedOut: true}
	var els []int64
	for _, rs := range results {
		for _, r := range rs {
			a.Calls++
			if a.Calls == 1 {
				a.EffTimeoutNS, a.HasDeadline = r.EffTimeoutNS, r.HasDeadline
			}
			if !r.Returned {
				a.CallsNeverReturned++
				if a.Returned || (!a.Parked && r.Parked) {
					a.Parked, a.GoroutineState, a.Goroutine = r.Parked, r.GoroutineState, r.Goroutine
				}
				a.Returned = false
				continue
			}
			els = append(els, r.ElapsedNS)
			switch {
			case r.TimedOut:
				a.CallsTimedOut++
			case r.AnsweredBeforeReturn:
				a.CallsRaced++ // the late answer overtook a late timer: both outcomes legal
			default:
				if a.TimedOut {
					a.TimedOut = false
					a.ErrClass, a.ErrText = r.ErrClass, r.ErrText
				}
			}
		}
	}
	if len(els) > 0 {
		sort.Slice(els, func(i, j int) bool { return els[i] < els[j] })
		a.ElapsedNS = els[len(els)-1] // the slowest call of the burst
		a.Elapsed = time.Duration(a.ElapsedNS).Round(time.Microsecond).String()
		a.MedianCall = time.Duration(els[len(els)/2]).Round(time.Microsecond).String()
	}
	a.BurstWall = burstWall.Round(time.Millisecond).String()
	if a.TimedOut {
		a.ErrClass = fmt.Sprintf("TTransportException(type=%d)", frugal.TRANSPORT_EXCEPTION_TIMED_OUT)
	}
	if a.Returned {
		a.RegAtReturn = frugal.VerifRegistrySize(tr)
		a.RegAfterPoll = a.RegAtReturn
		for dl := time.Now().Add(c13RegPoll); a.RegAfterPoll > 0 && time.Now().Before(dl); {
			time.Sleep(5 * time.Millisecond)
			a.RegAfterPoll = frugal.VerifRegistrySize(tr)
		}
		a.PeerSawRequest = true
		tr.Close() // with a wedged registry Close may park too: only on the healthy path
	}
	cleanup()
	return a
}
