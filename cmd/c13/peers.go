package main

import (
	"bytes"
	"encoding/base64"
	"fmt"
	"io"
	"net/http"
	"net/http/httptest"
	"runtime"
	"strconv"
	"strings"
	"sync"
	"sync/atomic"
	"time"

	frugal "github.com/Workiva/frugal/lib/go"
	"github.com/apache/thrift/lib/go/thrift"
	"github.com/nats-io/nats.go"

	"verif/rig"
	"verif/wire"
)

// attempt is what one call observed.
type attempt struct {
	N                    int      `json:"n"`
	Returned             bool     `json:"returned"`
	ElapsedNS            int64    `json:"elapsed_ns"`
	Elapsed              string   `json:"elapsed"`
	ErrClass             string   `json:"result"`
	ErrText              string   `json:"error_text,omitempty"`
	TimedOut             bool     `json:"timed_out"`
	Success              bool     `json:"success"`
	PayloadOK            bool     `json:"payload_ok,omitempty"`
	AnsweredBeforeReturn bool     `json:"peer_answered_before_return"`
	PeerSawRequest       bool     `json:"peer_saw_request"`
	RegAtReturn          int      `json:"registry_size_at_return"`
	RegAfterPoll         int      `json:"registry_size_after_poll"`
	EffTimeoutNS         int64    `json:"fctx_timeout_ns"`
	HasDeadline          bool     `json:"tocontext_has_deadline"`
	Parked               bool     `json:"parked_in_transport,omitempty"`
	GoroutineState       string   `json:"goroutine_state,omitempty"`
	Goroutine            string   `json:"goroutine,omitempty"`
	ReturnedAfterRelease bool     `json:"returned_after_peer_released,omitempty"`
	FollowUp             string   `json:"follow_up,omitempty"`
	RequestHex           string   `json:"request_frame_hex,omitempty"`
	Harness              string   `json:"harness_problem,omitempty"`
	HealthyControl       string   `json:"healthy_control,omitempty"` // stalledconn: the request made before the connection was stalled
	ConnStatus           string   `json:"nats_conn_status_at_return,omitempty"`
	First                *attempt `json:"earlier_call_with_stalled_send,omitempty"` // afterstalled*: the call made first on the same transport
	PeerRequests         int      `json:"peer_requests_seen,omitempty"`
	FaultBeforeReturn    bool     `json:"fault_injected_before_return,omitempty"` // closedpending / brokerlost
	OpenAtReturn         string   `json:"transport_open_at_return,omitempty"`
	Calls                int      `json:"burst_calls,omitempty"` // lateburst: ElapsedNS is the slowest call
	CallsTimedOut        int      `json:"burst_calls_timed_out,omitempty"`
	CallsRaced           int      `json:"burst_calls_answer_raced_timeout,omitempty"`
	CallsNeverReturned   int      `json:"burst_calls_never_returned,omitempty"`
	MedianCall           string   `json:"burst_median_call,omitempty"`
	BurstWall            string   `json:"burst_wall,omitempty"`
	ReaderHeld           string   `json:"reader_held_between_lookup_and_send,omitempty"` // latehandoff
	Companion            string   `json:"companion_call,omitempty"`                      // neverwithlongcall
	Reuse                *attempt `json:"reused_fctx_request,omitempty"`                 // publishrefused: the next request with the same FContext
	RegistryLock         string   `json:"registry_lock_schedule,omitempty"`              // busyregistry: what the monitor did with the registry's lock
	ReturnedWhileLocked  bool     `json:"returned_while_registry_lock_held,omitempty"`   // busyregistry: the call came back before the monitor let go of the lock
	CallsRegLeft         int      `json:"burst_calls_registration_left_at_return,omitempty"`
	RegLeftWitness       string   `json:"burst_first_registration_left_at_return,omitempty"`
	SendState            string   `json:"client_send_state_at_return,omitempty"` // answeredstalled*: what the client's own Write / Flush was doing when the call returned
}

// peerFlags is the peer-side state of one attempt (one mutex).
type peerFlags struct {
	mu       sync.Mutex
	answered bool
	saw      bool
}

func (p *peerFlags) markAnswered() { p.mu.Lock(); p.answered = true; p.mu.Unlock() }
func (p *peerFlags) markSaw()      { p.mu.Lock(); p.saw = true; p.mu.Unlock() }
func (p *peerFlags) get() (answered, saw bool) {
	p.mu.Lock()
	defer p.mu.Unlock()
	return p.answered, p.saw
}

func curGID() int64 {
	var b [64]byte
	n := runtime.Stack(b[:], false)
	f := strings.Fields(string(b[:n]))
	if len(f) < 2 {
		return -1
	}
	id, err := strconv.ParseInt(f[1], 10, 64)
	if err != nil {
		return -1
	}
	return id
}

// goroutineBlock returns the stack of goroutine gid from a full dump, its wait
// state, and whether it is parked (not running / runnable) inside the
// library's transport code.
func goroutineBlock(gid int64) (block, state string, parked bool) {
	buf := make([]byte, 1<<20)
	for {
		n := runtime.Stack(buf, true)
		if n < len(buf) {
			buf = buf[:n]
			break
		}
		buf = make([]byte, 2*len(buf))
	}
	prefix := fmt.Sprintf("goroutine %d [", gid)
	for _, b := range strings.Split(string(buf), "\n\n") {
		if !strings.HasPrefix(b, prefix) {
			continue
		}
		block = b
		if i := strings.Index(b, "]"); i > len(prefix) {
			state = b[len(prefix):i]
		}
		waiting := state != "" && !strings.HasPrefix(state, "running") && !strings.HasPrefix(state, "runnable")
		inLib := strings.Contains(b, "github.com/Workiva/frugal/lib/go.")
		return block, state, waiting && inLib
	}
	return "", "", false
}

func classify(tr thrift.TTransport, err error) (class, text string, timedOut, success bool) {
	if err == nil {
		return "success", "", false, true
	}
	if te, ok := err.(thrift.TTransportException); ok {
		return fmt.Sprintf("TTransportException(type=%d)", te.TypeId()), err.Error(), te.TypeId() == frugal.TRANSPORT_EXCEPTION_TIMED_OUT, false
	}
	return fmt.Sprintf("%T", err), err.Error(), false, false
}

// callSpec is one call with its peer-side observers.
type callSpec struct {
	c       c13case
	tr      frugal.FTransport
	fctx    frugal.FContext
	payload []byte
	want    []byte // expected result bytes when the peer answers
	flags   *peerFlags
	pre     func()        // runs in the calling goroutine immediately before the timed call
	preTime time.Duration // how long pre may take (added to the watchdog)
	shared  bool          // other calls are in flight on the same transport: no per-call registry check
	post    func()        // runs in the calling goroutine immediately after the call has returned
	release func()        // make the peer let go of everything, so that a stuck call can come back
}

// invoke performs the call under the watchdog and fills the attempt.
func invoke(cs callSpec) *attempt {
	a := &attempt{EffTimeoutNS: int64(cs.fctx.Timeout())}
	ctx, cancel := frugal.ToContext(cs.fctx)
	_, a.HasDeadline = ctx.Deadline()
	cancel()
	done := make(chan struct{})
	var gid atomic.Int64
	go func() {
		gid.Store(curGID())
		var res thrift.TTransport
		var err error
		if cs.pre != nil {
			cs.pre()
		}
		start := time.Now()
		if cs.c.Op == "request" {
			res, err = cs.tr.Request(cs.fctx, cs.payload)
		} else {
			err = cs.tr.Oneway(cs.fctx, cs.payload)
		}
		el := time.Since(start)
		a.AnsweredBeforeReturn, _ = cs.flags.get()
		if cs.post != nil {
			cs.post()
		}
		a.RegAtReturn = frugal.VerifRegistrySize(cs.tr)
		a.ElapsedNS = int64(el)
		a.Elapsed = el.Round(time.Microsecond).String()
		a.ErrClass, a.ErrText, a.TimedOut, a.Success = classify(res, err)
		if a.Success {
			if cs.c.Op == "oneway" || res == nil {
				a.PayloadOK = cs.c.Op == "oneway"
			} else {
				got, _ := io.ReadAll(res)
				a.PayloadOK = bytes.Equal(got, cs.want)
			}
		}
		close(done)
	}()
	wd := time.NewTimer(cs.c.T() + cs.preTime + c13Watchdog)
	defer wd.Stop()
	select {
	case <-done:
		a.Returned = true
	case <-wd.C:
		block, state, parked := goroutineBlock(gid.Load())
		if !parked {
			// Not parked in the transport: the call is running, already gone
			// (it came back together with the watchdog, e.g. after the whole
			// machine was frozen and every timer fired at once) or starved.
			// Give it one more watchdog period without touching the peer; the
			// min-of-3 rule then deals with its elapsed time.
			select {
			case <-done:
				a.Returned = true
			case <-time.After(cs.c.T() + c13Watchdog):
				block, state, parked = goroutineBlock(gid.Load())
			}
		}
		if !a.Returned {
			a.Goroutine, a.GoroutineState, a.Parked = block, state, parked
			cs.release()
			select {
			case <-done:
				a.ReturnedAfterRelease = true
			case <-time.After(c13Watchdog):
			}
			return a
		}
	}
	a.RegAfterPoll = a.RegAtReturn
	if cs.shared {
		a.RegAtReturn, a.RegAfterPoll = 0, 0
	}
	for dl := time.Now().Add(c13RegPoll); a.RegAfterPoll > 0 && time.Now().Before(dl); {
		time.Sleep(5 * time.Millisecond)
		a.RegAfterPoll = frugal.VerifRegistrySize(cs.tr)
	}
	_, a.PeerSawRequest = cs.flags.get()
	return a
}

// followUp makes a fresh request (generous timeout) that the peer answers at
// once; returns "ok" or what went wrong.
func followUp(tr frugal.FTransport, body []byte, arm func()) string {
	if !tr.IsOpen() {
		return "transport no longer open"
	}
	arm()
	fctx := frugal.NewFContext("")
	fctx.SetTimeout(c13ControlT)
	payload := wire.BuildFrame(wire.MapToPairs(fctx.RequestHeaders()), body)
	res, err := tr.Request(fctx, payload)
	if err != nil {
		return "fresh request failed: " + err.Error()
	}
	if res == nil {
		return "fresh request returned no result"
	}
	got, _ := io.ReadAll(res)
	if !bytes.Equal(got, respFrame(fctx.RequestHeaders()["_opid"], body)[4:]) {
		return "fresh request returned a different payload"
	}
	if n := frugal.VerifRegistrySize(tr); n > 0 {
		return fmt.Sprintf("registry holds %d entries after the fresh request", n)
	}
	return "ok"
}

func respFrame(opid string, reqBody []byte) []byte {
	return wire.BuildFrame([]wire.Pair{{Name: "_opid", Value: opid}}, append([]byte("resp:"), reqBody...))
}

func newCtx(c c13case, body []byte) (frugal.FContext, []byte, []byte) {
	fctx := frugal.NewFContext("")
	fctx.SetTimeout(c.T())
	h := fctx.RequestHeaders()
	payload := wire.BuildFrame(wire.MapToPairs(h), body) // as the generated client does
	return fctx, payload, respFrame(h["_opid"], body)[4:]
}

func sleepOr(d time.Duration, stop <-chan struct{}) bool {
	t := time.NewTimer(d)
	defer t.Stop()
	select {
	case <-t.C:
		return true
	case <-stop:
		return false
	}
}

// ---------------------------------------------------------------- adapter

func attemptAdapter(c c13case, body []byte) *attempt {
	st := rig.NewScriptTransport()
	flags := &peerFlags{}
	var blkW, blkF chan struct{}
	var onceW, onceF, onceStop sync.Once
	if strings.HasPrefix(c.Pattern, "blockwrite:") || strings.HasPrefix(c.Pattern, "slowwrite:") {
		blkW = make(chan struct{})
		st.BlockWrite = blkW
	}
	if strings.HasPrefix(c.Pattern, "blockflush:") {
		blkF = make(chan struct{})
		st.BlockFlush = blkF
		st.IgnoreFlushCtx = c.Pattern == "blockflush:noctx"
	}
	openW := func() {
		if blkW != nil {
			onceW.Do(func() { close(blkW) })
		}
	}
	openF := func() {
		if blkF != nil {
			onceF.Do(func() { close(blkF) })
		}
	}
	frames := make(chan []byte, 8)
	writing := make(chan struct{}, 1)
	st.OnFrame = func(f []byte) {
		flags.markSaw()
		select {
		case frames <- f:
		default:
		}
	}
	st.OnWrite = func(int) {
		select {
		case writing <- struct{}{}:
		default:
		}
	}
	tr := frugal.NewAdapterTransport(st)
	a := &attempt{}
	if err := tr.Open(); err != nil {
		a.ErrClass, a.ErrText = "open failed", err.Error()
		a.Returned = true
		return a
	}
	stop := make(chan struct{})
	answer := func(f []byte) { // reply to request frame f
		h, b, err := wire.ParseFrame(f)
		if err != nil {
			return
		}
		flags.markAnswered()
		st.Feed(respFrame(h["_opid"], b))
	}
	fctx, payload, want := newCtx(c, body)
	peerDone := make(chan struct{})
	go func() { // the peer
		defer close(peerDone)
		switch {
		case c.Pattern == "now" && c.Op == "request":
			select {
			case f := <-frames:
				answer(f)
			case <-stop:
			}
		case c.isLate():
			select {
			case f := <-frames:
				if sleepOr(c.lateDelay(), stop) {
					answer(f)
				}
			case <-stop:
			}
		case c.Pattern == "blockwrite:5T" || strings.HasPrefix(c.Pattern, "slowwrite:"):
			select {
			case <-writing:
				if sleepOr(c.holdDelay(), stop) {
					// the stall is over: from here on a call that has not
					// looked yet may legally see the completed send
					flags.markAnswered()
				}
				openW()
			case <-stop:
			}
		}
	}()
	release := func() {
		openW()
		openF()
		flags.markAnswered()
		st.Feed(respFrame(fctx.RequestHeaders()["_opid"], body))
	}
	a = invoke(callSpec{c: c, tr: tr, fctx: fctx, payload: payload, want: want, flags: flags, release: release})
	a.RequestHex = fmt.Sprintf("%x", payload)
	if a.Returned && c.isLate() {
		// wait for the late response, let the read loop swallow it, then the
		// transport must still serve a fresh request
		select {
		case <-peerDone:
			for dl := time.Now().Add(2 * time.Second); st.Pending() > 0 && time.Now().Before(dl); {
				time.Sleep(time.Millisecond)
			}
			a.FollowUp = followUp(tr, body, func() {
				go func() {
					select {
					case f := <-frames:
						answer(f)
					case <-stop:
					}
				}()
			})
		case <-time.After(c.lateDelay() + 5*time.Second):
		}
	}
	onceStop.Do(func() { close(stop) })
	openW()
	openF()
	<-peerDone
	tr.Close()
	return a
}

// ---------------------------------------------------------------- NATS

type c13env struct {
	ns     *rig.NatsServer
	client *nats.Conn
	peer   *nats.Conn
	seq    atomic.Int64

	// a second broker advertising max_payload 4 KiB (publish-refused cases)
	small       *rig.NatsServer
	smallClient *nats.Conn
	smallPeer   *nats.Conn
	smallErr    error

	burstCalls int // calls per caller in a lateburst case
}

func newC13Env() (*c13env, error) {
	ns, err := rig.StartNats()
	if err != nil {
		return nil, err
	}
	e := &c13env{ns: ns}
	if e.client, err = ns.Connect(); err != nil {
		ns.Stop()
		return nil, err
	}
	if e.peer, err = ns.Connect(); err != nil {
		e.client.Close()
		ns.Stop()
		return nil, err
	}
	if e.small, e.smallErr = rig.StartNatsMaxPayload(c13SmallMaxPayload); e.smallErr == nil {
		if e.smallClient, e.smallErr = e.small.Connect(); e.smallErr == nil {
			e.smallPeer, e.smallErr = e.small.Connect()
		}
	}
	return e, nil
}

func (e *c13env) stop() {
	if e.smallClient != nil {
		e.smallClient.Close()
	}
	if e.smallPeer != nil {
		e.smallPeer.Close()
	}
	if e.small != nil {
		e.small.Stop()
	}
	e.client.Close()
	e.peer.Close()
	e.ns.Stop()
}

func attemptNats(env *c13env, c c13case, body []byte) *attempt {
	flags := &peerFlags{}
	n := env.seq.Add(1)
	subject := fmt.Sprintf("c13.svc.%d", n)
	stop := make(chan struct{})
	var mu sync.Mutex
	mode := c.Pattern
	var last *nats.Msg
	lateDone := make(chan struct{}, 8)
	var bg sync.WaitGroup
	reply := func(m *nats.Msg) {
		h, b, err := wire.ParseFrame(m.Data)
		if err != nil {
			return
		}
		flags.markAnswered()
		env.peer.Publish(m.Reply, respFrame(h["_opid"], b))
		env.peer.Flush()
	}
	// a subscriber is always present, so the broker never reports 503 "no responders"
	sub, err := env.peer.Subscribe(subject, func(m *nats.Msg) {
		flags.markSaw()
		mu.Lock()
		md := mode
		last = m
		mu.Unlock()
		switch {
		case md == "now":
			reply(m)
		case strings.HasPrefix(md, "late:"):
			bg.Add(1)
			go func() {
				defer bg.Done()
				if sleepOr(c.lateDelay(), stop) {
					reply(m)
				}
				lateDone <- struct{}{}
			}()
		}
	})
	a := &attempt{Returned: true}
	if err != nil {
		a.ErrClass, a.ErrText = "peer subscribe failed", err.Error()
		return a
	}
	env.peer.Flush()
	tr := frugal.NewFNatsTransport(env.client, subject, fmt.Sprintf("_INBOX.c13.%d", n))
	if err := tr.Open(); err != nil {
		sub.Unsubscribe()
		a.ErrClass, a.ErrText = "open failed", err.Error()
		return a
	}
	env.client.Flush() // the inbox subscription is known to the broker
	fctx, payload, want := newCtx(c, body)
	release := func() {
		mu.Lock()
		m := last
		mu.Unlock()
		if m != nil {
			reply(m)
		}
	}
	a = invoke(callSpec{c: c, tr: tr, fctx: fctx, payload: payload, want: want, flags: flags, release: release})
	a.RequestHex = fmt.Sprintf("%x", payload)
	if a.Returned && c.isLate() {
		select {
		case <-lateDone:
			env.client.Flush() // round trip: the late reply has been handed to the client connection
			time.Sleep(2 * time.Millisecond)
			a.FollowUp = followUp(tr, body, func() { mu.Lock(); mode = "now"; mu.Unlock() })
		case <-time.After(c.lateDelay() + 5*time.Second):
		}
	}
	close(stop)
	bg.Wait()
	tr.Close()
	sub.Unsubscribe()
	return a
}

// ---------------------------------------------------------------- HTTP

func attemptHTTP(c c13case, body []byte) *attempt {
	flags := &peerFlags{}
	release := make(chan struct{})
	var once sync.Once
	open := func() { once.Do(func() { close(release) }) }
	var mu sync.Mutex
	mode := c.Pattern
	hangups := 0
	lateDone := make(chan struct{}, 8)
	srv := httptest.NewServer(http.HandlerFunc(func(w http.ResponseWriter, r *http.Request) {
		raw, _ := io.ReadAll(r.Body)
		frame, err := base64.StdEncoding.DecodeString(string(raw))
		if err != nil {
			http.Error(w, "bad base64", http.StatusBadRequest)
			return
		}
		h, b, err := wire.ParseFrame(frame)
		if err != nil {
			http.Error(w, "bad frame", http.StatusBadRequest)
			return
		}
		flags.markSaw()
		mu.Lock()
		md := mode
		mu.Unlock()
		if strings.HasPrefix(md, "late:") {
			defer func() { lateDone <- struct{}{} }()
		}
		resp := base64.StdEncoding.EncodeToString(respFrame(h["_opid"], b))
		w.Header().Set("content-type", "application/x-frugal")
		w.Header().Set("content-transfer-encoding", "base64")
		switch {
		case md == "now":
		case strings.HasPrefix(md, "late:"):
			sleepOr(c.lateDelay(), release)
		case md == "never":
			<-release
		case strings.HasPrefix(md, "hangup:"):
			// first request: sit on it for d < T, then close the connection
			// without a response (the client sees EOF); later ones: silent
			mu.Lock()
			hangups++
			first := hangups == 1
			mu.Unlock()
			if first && sleepOr(c.hangDelay(), release) {
				if hj, ok := w.(http.Hijacker); ok {
					if conn, _, err := hj.Hijack(); err == nil {
						conn.Close()
						return
					}
				}
			}
			<-release
		case md == "stallbody":
			w.Header().Set("content-length", strconv.Itoa(len(resp)))
			w.WriteHeader(http.StatusOK)
			if f, ok := w.(http.Flusher); ok {
				f.Flush()
			}
			<-release
		}
		flags.markAnswered()
		io.WriteString(w, resp)
	}))
	ht := &http.Transport{}
	tr := frugal.NewFHTTPTransportBuilder(&http.Client{Transport: ht, Timeout: c.clientTimeout()}, srv.URL).Build()
	tr.Open()
	fctx, payload, want := newCtx(c, body)
	a := invoke(callSpec{c: c, tr: tr, fctx: fctx, payload: payload, want: want, flags: flags, release: open})
	a.RequestHex = fmt.Sprintf("%x", payload)
	mu.Lock()
	a.PeerRequests = hangups
	mu.Unlock()
	if a.Returned && c.isLate() {
		// with a tiny timeout the client may give up before the request reaches the handler
		wait := c.lateDelay() + 300*time.Millisecond
		if _, saw := flags.get(); saw {
			wait = c.lateDelay() + 5*time.Second
		}
		select {
		case <-lateDone:
			a.FollowUp = followUp(tr, body, func() { mu.Lock(); mode = "now"; mu.Unlock() })
		case <-time.After(wait):
		}
	}
	open()
	tr.Close()
	ht.CloseIdleConnections()
	srv.CloseClientConnections()
	srv.Close()
	return a
}
