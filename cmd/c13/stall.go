package main

// Two more peer stall patterns:
//
//   stallconnect:<5T|forever>  adapter: the underlying TTransport.Open() is
//     stalled (an unanswered connect) while Request / Oneway is issued from
//     another goroutine.  Only "returns at all" and the time bound are
//     asserted; any error class is acceptable.
//   stalledconn                NATS: the client<->broker TCP connection stays
//     established but stops forwarding in both directions (black-holing
//     middlebox) after one healthy control request.

import (
	"fmt"
	"net"
	"strings"
	"sync"
	"time"

	frugal "github.com/Workiva/frugal/lib/go"
	"github.com/nats-io/nats.go"

	"verif/rig"
	"verif/wire"
)

// stallOpenTransport is a ScriptTransport whose Open() blocks until the gate
// is opened.
type stallOpenTransport struct {
	*rig.ScriptTransport
	entered chan struct{}
	gate    chan struct{}
	once    sync.Once
}

func (s *stallOpenTransport) Open() error {
	s.once.Do(func() { close(s.entered) })
	<-s.gate
	return s.ScriptTransport.Open()
}

func attemptAdapterStalledConnect(c c13case, body []byte) *attempt {
	st := &stallOpenTransport{ScriptTransport: rig.NewScriptTransport(), entered: make(chan struct{}), gate: make(chan struct{})}
	var once sync.Once
	openGate := func() { once.Do(func() { close(st.gate) }) }
	flags := &peerFlags{}
	tr := frugal.NewAdapterTransport(st)
	stop := make(chan struct{})
	opened := make(chan error, 1)
	go func() { opened <- tr.Open() }() // the (re)connect in progress
	select {
	case <-st.entered: // the adapter is now inside the underlying Open()
	case <-time.After(c13Watchdog):
		openGate()
		return &attempt{Returned: true, ErrClass: "harness: underlying Open() never entered"}
	}
	holdDone := make(chan struct{})
	go func() {
		defer close(holdDone)
		if c.Pattern == "stallconnect:5T" && sleepOr(c.holdDelay(), stop) {
			openGate()
		}
	}()
	fctx, payload, want := newCtx(c, body)
	release := func() {
		openGate()
		flags.markAnswered()
		st.Feed(respFrame(fctx.RequestHeaders()["_opid"], body))
	}
	a := invoke(callSpec{c: c, tr: tr, fctx: fctx, payload: payload, want: want, flags: flags, release: release})
	a.RequestHex = fmt.Sprintf("%x", payload)
	close(stop)
	openGate()
	<-holdDone
	select {
	case <-opened:
		tr.Close()
	case <-time.After(c13Watchdog):
	}
	return a
}

// stallProxy forwards TCP traffic to target; while stalled it keeps every
// socket open and forwards nothing in either direction.
type stallProxy struct {
	ln      net.Listener
	target  string
	mu      sync.Mutex
	cond    *sync.Cond
	stalled bool
	closed  bool
	conns   []net.Conn
}

func newStallProxy(target string) (*stallProxy, error) {
	ln, err := net.Listen("tcp", "127.0.0.1:0")
	if err != nil {
		return nil, err
	}
	p := &stallProxy{ln: ln, target: target}
	p.cond = sync.NewCond(&p.mu)
	go p.accept()
	return p, nil
}

func (p *stallProxy) accept() {
	for {
		c, err := p.ln.Accept()
		if err != nil {
			return
		}
		s, err := net.Dial("tcp", p.target)
		if err != nil {
			c.Close()
			continue
		}
		p.mu.Lock()
		p.conns = append(p.conns, c, s)
		p.mu.Unlock()
		go p.pipe(c, s)
		go p.pipe(s, c)
	}
}

func (p *stallProxy) pipe(src, dst net.Conn) {
	buf := make([]byte, 32*1024)
	for {
		n, err := src.Read(buf)
		if n > 0 {
			p.mu.Lock()
			for p.stalled && !p.closed {
				p.cond.Wait()
			}
			p.mu.Unlock()
			if _, werr := dst.Write(buf[:n]); werr != nil {
				return
			}
		}
		if err != nil {
			dst.Close()
			return
		}
	}
}

func (p *stallProxy) setStalled(v bool) {
	p.mu.Lock()
	p.stalled = v
	p.mu.Unlock()
	p.cond.Broadcast()
}

func (p *stallProxy) close() {
	p.ln.Close()
	p.mu.Lock()
	p.closed = true
	for _, c := range p.conns {
		c.Close()
	}
	p.mu.Unlock()
	p.cond.Broadcast()
}

func attemptNatsStalledConn(env *c13env, c c13case, body []byte) *attempt {
	fail := func(what string, err error) *attempt {
		return &attempt{Returned: true, Harness: fmt.Sprintf("%s: %v", what, err)}
	}
	flags := &peerFlags{}
	n := env.seq.Add(1)
	subject := fmt.Sprintf("c13.svc.%d", n)
	// the service: subscribed directly at the broker, never answering
	sub, err := env.peer.Subscribe(subject, func(*nats.Msg) { flags.markSaw() })
	if err != nil {
		return fail("peer subscribe", err)
	}
	defer sub.Unsubscribe()
	env.peer.Flush()
	proxy, err := newStallProxy(strings.TrimPrefix(env.ns.URL, "nats://"))
	if err != nil {
		return fail("proxy", err)
	}
	defer proxy.close()
	// no pings, no reconnects: the client stays CONNECTED while the path is stalled
	conn, err := nats.Connect("nats://"+proxy.ln.Addr().String(), nats.NoReconnect(), nats.PingInterval(time.Hour), nats.Timeout(10*time.Second))
	if err != nil {
		return fail("connect through proxy", err)
	}
	defer conn.Close()
	tr := frugal.NewFNatsTransport(conn, subject, fmt.Sprintf("_INBOX.c13.%d", n))
	if err := tr.Open(); err != nil {
		return fail("open", err)
	}
	if err := conn.Flush(); err != nil {
		return fail("flush on the healthy connection", err)
	}
	// healthy control: silent service, connection fine
	hc := c
	hc.Pattern = "silent"
	fctx0, payload0, want0 := newCtx(hc, body)
	h := invoke(callSpec{c: hc, tr: tr, fctx: fctx0, payload: payload0, want: want0, flags: &peerFlags{}, release: func() {}})
	conn.Flush()
	if !h.Returned || !h.TimedOut || time.Duration(h.ElapsedNS) > c.bound() {
		a := fail("healthy control request through the proxy did not time out on time", fmt.Errorf("%s after %s", h.ErrClass, h.Elapsed))
		proxy.setStalled(false)
		return a
	}
	proxy.setStalled(true)
	fctx, payload, want := newCtx(c, body)
	a := invoke(callSpec{c: c, tr: tr, fctx: fctx, payload: payload, want: want, flags: flags, release: func() { proxy.setStalled(false) }})
	a.RequestHex = fmt.Sprintf("%x", payload)
	a.HealthyControl = h.Elapsed + " " + h.ErrClass
	a.ConnStatus = conn.Status().String()
	proxy.setStalled(false)
	tr.Close()
	return a
}

// ---------------------------------------------------------------- NATS, publish refused

const (
	c13SmallMaxPayload = 4096
	c13BigBody         = 16 * 1024 // above the broker's max_payload, far below the transport's own 1 MiB check
)

// attemptNatsPublishRefused: the broker advertises max_payload 4 KiB, so the
// client library refuses to publish a 16 KiB frame that passed IsOpen() and
// the transport's 1 MiB check.  Whatever error comes back must come back in
// time and leave no registration; the same FContext is then reused for an
// ordinary request against the silent service, which must time out normally.
func attemptNatsPublishRefused(env *c13env, c c13case, body []byte) *attempt {
	fail := func(what string, err error) *attempt {
		return &attempt{Returned: true, Harness: fmt.Sprintf("%s: %v", what, err)}
	}
	if env.smallErr != nil {
		return fail("broker with max_payload 4 KiB", env.smallErr)
	}
	flags := &peerFlags{}
	n := env.seq.Add(1)
	subject := fmt.Sprintf("c13.svc.%d", n)
	sub, err := env.smallPeer.Subscribe(subject, func(*nats.Msg) { flags.markSaw() }) // silent service
	if err != nil {
		return fail("peer subscribe", err)
	}
	defer sub.Unsubscribe()
	env.smallPeer.Flush()
	tr := frugal.NewFNatsTransport(env.smallClient, subject, fmt.Sprintf("_INBOX.c13.%d", n))
	if err := tr.Open(); err != nil {
		return fail("open", err)
	}
	defer tr.Close()
	env.smallClient.Flush()
	big := make([]byte, c13BigBody)
	for i := range big {
		big[i] = body[i%len(body)]
	}
	fctx, payload, want := newCtx(c, big)
	if mp := env.smallClient.MaxPayload(); int64(len(payload)) <= mp || len(payload) > 1024*1024 {
		return fail("frame size not between the two limits", fmt.Errorf("frame %d, broker max_payload %d", len(payload), mp))
	}
	a := invoke(callSpec{c: c, tr: tr, fctx: fctx, payload: payload, want: want, flags: flags, release: func() {}})
	a.RequestHex = fmt.Sprintf("(%d-byte frame) %x...", len(payload), payload[:96])
	if !a.Returned {
		return a
	}
	if a.Success || a.TimedOut {
		a.Harness = "the publish was not refused: " + a.ErrClass
		return a
	}
	// reuse the FContext (documented as reusable once its request completed)
	small := wire.BuildFrame(wire.MapToPairs(fctx.RequestHeaders()), body)
	rc := c
	rc.Pattern = "silent"
	a.Reuse = invoke(callSpec{c: rc, tr: tr, fctx: fctx, payload: small, want: nil, flags: &peerFlags{}, release: func() {}})
	a.Reuse.RequestHex = fmt.Sprintf("%x", small)
	return a
}

// ---------------------------------------------------------------- adapter, two calls across a stalled send

// attemptAdapterAfterStalledSend: the peer stops taking bytes (Write blocks,
// or Flush blocks ignoring its context), a first Request times out while its
// sender is stuck, and then a second, small call (the case's operation) is
// issued on the same transport during the stall.  Both must be back within
// their own bound with TIMED_OUT and leave no registration.
func attemptAdapterAfterStalledSend(c c13case, body []byte) *attempt {
	st := rig.NewScriptTransport()
	blk := make(chan struct{})
	if c.Pattern == "afterstalledwrite" {
		st.BlockWrite = blk
	} else {
		st.BlockFlush = blk
		st.IgnoreFlushCtx = true
	}
	var once sync.Once
	unblock := func() { once.Do(func() { close(blk) }) }
	flags := &peerFlags{}
	st.OnFrame = func([]byte) { flags.markSaw() }
	tr := frugal.NewAdapterTransport(st)
	if err := tr.Open(); err != nil {
		return &attempt{Returned: true, Harness: "open: " + err.Error()}
	}
	defer func() {
		unblock()
		tr.Close()
	}()
	// first call: a large request whose send stalls
	big := make([]byte, 256*1024)
	for i := range big {
		big[i] = body[i%len(body)]
	}
	c1 := c
	c1.Op = "request"
	fctx1, payload1, want1 := newCtx(c1, big)
	first := invoke(callSpec{c: c1, tr: tr, fctx: fctx1, payload: payload1, want: want1, flags: flags, release: func() {
		unblock()
		flags.markAnswered()
		st.Feed(respFrame(fctx1.RequestHeaders()["_opid"], big))
	}})
	first.RequestHex = fmt.Sprintf("(%d-byte frame)", len(payload1))
	if !first.Returned {
		return first // judged as a never-returning call of this case
	}
	// second call, during the stall (the first sender is still parked in Write / Flush)
	fctx, payload, want := newCtx(c, body)
	a := invoke(callSpec{c: c, tr: tr, fctx: fctx, payload: payload, want: want, flags: flags, release: func() {
		unblock()
		flags.markAnswered()
		st.Feed(respFrame(fctx.RequestHeaders()["_opid"], body))
	}})
	a.RequestHex = fmt.Sprintf("%x", payload)
	a.First = first
	return a
}

// ---------------------------------------------------------------- NATS, fault while a call is pending

// attemptNatsFaultWhilePending: the service is silent; T/4 after it received
// the request, either the transport is closed from another goroutine
// ("closedpending") or the client's broker connection is cut ("brokerlost").
// The request was published and no response arrived in time: TIMED_OUT at T.
func attemptNatsFaultWhilePending(env *c13env, c c13case, body []byte) *attempt {
	fail := func(what string, err error) *attempt {
		return &attempt{Returned: true, Harness: fmt.Sprintf("%s: %v", what, err)}
	}
	flags := &peerFlags{}
	n := env.seq.Add(1)
	subject := fmt.Sprintf("c13.svc.%d", n)
	conn := env.client
	var proxy *stallProxy
	if c.Pattern == "brokerlost" {
		var err error
		if proxy, err = newStallProxy(strings.TrimPrefix(env.ns.URL, "nats://")); err != nil {
			return fail("proxy", err)
		}
		defer proxy.close()
		// default client behaviour: it keeps trying to reconnect (RECONNECTING)
		if conn, err = nats.Connect("nats://"+proxy.ln.Addr().String(), nats.MaxReconnects(-1), nats.ReconnectWait(time.Second), nats.Timeout(10*time.Second)); err != nil {
			return fail("connect through proxy", err)
		}
		defer conn.Close()
	}
	tr := frugal.NewFNatsTransport(conn, subject, fmt.Sprintf("_INBOX.c13.%d", n))
	stop := make(chan struct{})
	var fmu sync.Mutex
	faulted := false
	faultDone := make(chan struct{})
	var once sync.Once
	sub, err := env.peer.Subscribe(subject, func(*nats.Msg) {
		flags.markSaw()
		once.Do(func() {
			go func() {
				defer close(faultDone)
				if !sleepOr(c.T()/4, stop) {
					return
				}
				if c.Pattern == "brokerlost" {
					proxy.close() // both sockets die: the client sees the connection drop
					for dl := time.Now().Add(c.T() / 4); conn.Status() == nats.CONNECTED && time.Now().Before(dl); {
						time.Sleep(time.Millisecond)
					}
				} else {
					tr.Close()
				}
				fmu.Lock()
				faulted = true
				fmu.Unlock()
			}()
		})
	})
	if err != nil {
		return fail("peer subscribe", err)
	}
	defer sub.Unsubscribe()
	env.peer.Flush()
	if err := tr.Open(); err != nil {
		return fail("open", err)
	}
	conn.Flush()
	fctx, payload, want := newCtx(c, body)
	a := invoke(callSpec{c: c, tr: tr, fctx: fctx, payload: payload, want: want, flags: flags, release: func() {}})
	a.RequestHex = fmt.Sprintf("%x", payload)
	fmu.Lock()
	a.FaultBeforeReturn = faulted
	fmu.Unlock()
	a.ConnStatus = conn.Status().String()
	a.OpenAtReturn = fmt.Sprint(tr.IsOpen())
	close(stop)
	select {
	case <-faultDone:
	case <-time.After(time.Second):
	}
	tr.Close()
	return a
}
