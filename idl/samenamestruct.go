package idl

import (
	"fmt"
	"math/rand"
	"strings"
)

// Stress dimension "the root file and one of its includes declare a struct of
// the SAME bare name with different fields, and the root file writes struct
// literals of the INCLUDED type": as a constant, and inside the declared
// defaults (list elements, map values, nested) of fields of a root-file
// struct.  Both structs are legal (different name spaces / Go packages); a
// literal `{"x": 3, "y": 4}` of type inc.Name has to be read against the
// fields of the included struct.
//
// Like incenumalias.go this is a post-processing step with its own PRNG
// stream: Generate's draws do not move.  Feature tags set here:
//
//	same_struct_name_in_root_and_include        the clash itself
//	included_struct_literal_constant            const inc.Name C = {...}  (and list<inc.Name>)
//	included_struct_literal_in_list_default     list<inc.Name> f = [{...}, ...]
//	included_struct_literal_in_map_default      map<string, inc.Name> f = {"k": {...}}
//	included_struct_literal_in_nested_default   map<string, list<inc.Name>> f = {...}
//	included_struct_literal_via_typedef         the container type is a typedef
//	local_struct_literal_in_default             control: literals of the local same-named struct
//	struct_literal_default_in_include           control: the include's own unqualified literals

// SameNameStructFlag is the "+"-flag GenerateDirected understands on top of
// the flags of GenerateNamed.
const SameNameStructFlag = "samenamestruct"

// GenerateDirected is GenerateNamed plus the directed steps declared in files
// added after it.  Without one of their flags it is exactly GenerateNamed.
func GenerateDirected(seed int64, name string) *Program {
	p := GenerateNamed(seed, name)
	for _, flag := range strings.Split(name, "+") {
		if flag == SameNameStructFlag {
			AddSameNameStructLiterals(p, rand.New(rand.NewSource(seed^0x5a3e9a3e57c7)))
		}
	}
	return p
}

var sameNameWords = []string{"ridge", "vale", "mesa", "fjord", "dune", "cove", "glen", "moor", "reef", "tarn", "crag", "fen"}

type snNamer struct {
	rng  *rand.Rand
	used map[string]bool
}

func (n *snNamer) make(style int) string {
	for try := 0; ; try++ {
		a, b := sameNameWords[n.rng.Intn(len(sameNameWords))], sameNameWords[n.rng.Intn(len(sameNameWords))]
		var s string
		switch style {
		case 0:
			s = a + strings.Title(b)
		case 1:
			s = strings.Title(a) + strings.Title(b)
		case 2:
			s = a + "_" + b
		default:
			s = strings.ToUpper(a + "_" + b)
		}
		if try > 20 {
			s += fmt.Sprint(try)
		}
		if k := norm(s); !n.used[k] && !denied[k] {
			n.used[k] = true
			return s
		}
	}
}

// AddSameNameStructLiterals adds the dimension described above to p (in place).
func AddSameNameStructLiterals(p *Program, rng *rand.Rand) {
	feat := func(s string) { p.Features[s] = true }
	B := p.Root()
	// one name pool for everything this step declares at file level (in either
	// file) so nothing collides with a generated name or with each other
	top := &snNamer{rng: rng, used: map[string]bool{}}
	for _, pf := range p.Files {
		top.used[norm(pf.Base)] = true
		for _, d := range pf.Decls {
			top.used[norm(d.Name())] = true
		}
	}
	A := &File{Base: top.make(2), Ext: ".frugal"}
	clash := top.make(1) // the bare name both files declare

	baseTypes := []string{"i32", "i64", "string", "bool", "double", "i16"}
	// a literal value of a base type that differs from the type's zero value
	litOf := func(t string) interface{} {
		switch t {
		case "string":
			return []string{"start", "two words", "o", "north-east"}[rng.Intn(4)]
		case "bool":
			return true
		case "double":
			return []float64{1.5, -2.25, 1024.0, 0.125}[rng.Intn(4)]
		}
		return int64(1 + rng.Intn(100))
	}

	// --- the included struct: 3..5 non-optional fields, sometimes an optional one
	fn := &snNamer{rng: rng, used: map[string]bool{}}
	inc := &Struct{Kind: KindStruct, Name: clash}
	id := 0
	nInc := 3 + rng.Intn(3)
	for i := 0; i < nInc; i++ {
		id += 1 + rng.Intn(2)
		req := ReqDefault
		if rng.Intn(4) == 0 {
			req = ReqRequired
		}
		inc.Fields = append(inc.Fields, &Field{ID: id, Name: fn.make(rng.Intn(3)), Req: req, Type: T(baseTypes[rng.Intn(len(baseTypes))])})
	}
	var incOpt *Field
	if rng.Intn(2) == 0 {
		id += 1 + rng.Intn(2)
		incOpt = &Field{ID: id, Name: fn.make(0), Req: ReqOptional, Type: T(baseTypes[rng.Intn(len(baseTypes))])}
		inc.Fields = append(inc.Fields, incOpt)
	}
	// --- the local struct of the same name: keeps some of the included struct's
	// fields (same name and type, possibly another id), lacks at least one, and
	// has fields of its own
	loc := &Struct{Kind: KindStruct, Name: clash}
	keep := rng.Intn(nInc) // 0 .. nInc-1 fields in common
	lid := 0
	for _, i := range rng.Perm(nInc)[:keep] {
		lid += 1 + rng.Intn(2)
		f := inc.Fields[i]
		loc.Fields = append(loc.Fields, &Field{ID: lid, Name: f.Name, Req: f.Req, Type: f.Type.Clone()})
	}
	for i, n := 0, 1+rng.Intn(3); i < n; i++ {
		lid += 1 + rng.Intn(2)
		loc.Fields = append(loc.Fields, &Field{ID: lid, Name: fn.make(rng.Intn(3)), Type: T(baseTypes[rng.Intn(len(baseTypes))])})
	}
	rng.Shuffle(len(loc.Fields), func(i, j int) {
		loc.Fields[i].Name, loc.Fields[j].Name = loc.Fields[j].Name, loc.Fields[i].Name
		loc.Fields[i].Type, loc.Fields[j].Type = loc.Fields[j].Type, loc.Fields[i].Type
		loc.Fields[i].Req, loc.Fields[j].Req = loc.Fields[j].Req, loc.Fields[i].Req
	})
	feat("same_struct_name_in_root_and_include")
	feat("includes")
	feat("cross_file_reference")

	// a literal of struct s: every non-optional field is set (so the declared
	// value does not depend on what a target does with keys left out), optional
	// fields in half of the literals; keys in a random order
	structLit := func(s *Struct) []KV {
		var kv []KV
		for _, f := range s.Fields {
			if f.Req == ReqOptional && rng.Intn(2) == 0 {
				// an optional field is a key in half of the literals (the Go field
				// is then a pointer: the emitted literal must still build -- it did
				// not on the pinned tree, see known_findings C02-struct-literal-optional)
				continue
			}
			kv = append(kv, KV{f.Name, litOf(f.Type.Name)})
		}
		rng.Shuffle(len(kv), func(i, j int) { kv[i], kv[j] = kv[j], kv[i] })
		return kv
	}
	lits := func(s *Struct, min int) []interface{} {
		out := []interface{}{}
		for i, n := 0, min+rng.Intn(3); i < n; i++ {
			out = append(out, structLit(s))
		}
		return out
	}
	mapLits := func(s *Struct, val func() interface{}) []KV {
		var kv []KV
		for i, n := 0, 1+rng.Intn(2); i < n; i++ {
			kv = append(kv, KV{[]string{"first", "second key", "k3"}[i], val()})
		}
		return kv
	}

	// --- file A: the struct, and a holder with literals of it written unqualified
	holdA := &Struct{Kind: KindStruct, Name: top.make(1)}
	{
		hn := &snNamer{rng: rng, used: map[string]bool{}}
		holdA.Fields = append(holdA.Fields,
			&Field{ID: 1, Name: hn.make(0), Type: ListOf(T(clash)), Default: lits(inc, 1)},
			&Field{ID: 2, Name: hn.make(0), Type: T("i32")},
		)
		if rng.Intn(2) == 0 {
			holdA.Fields = append(holdA.Fields, &Field{ID: 4, Name: hn.make(0), Type: MapOf(T("string"), T(clash)), Default: mapLits(inc, func() interface{} { return structLit(inc) })})
		}
		feat("struct_literal_default_in_include")
	}
	A.Decls = append(A.Decls, &Decl{Struct: inc})
	var tdA *TypeDef
	if rng.Intn(2) == 0 {
		tdA = &TypeDef{Name: top.make(1), Type: ListOf(T(clash))}
		A.Decls = append(A.Decls, &Decl{TypeDef: tdA})
	}
	A.Decls = append(A.Decls, &Decl{Struct: holdA})
	p.Files = append([]*File{A}, p.Files...)
	B.Includes = append(B.Includes, &Include{Path: A.FileName()})

	// --- file B (root)
	q := A.Base + "." + clash
	newB := []*Decl{}
	localFirst := rng.Intn(2) == 0 // the local struct before or after the users of the included one
	if localFirst {
		newB = append(newB, &Decl{Struct: loc})
	}
	newB = append(newB, &Decl{Const: &Const{Name: top.make(3), Type: T(q), Value: structLit(inc)}})
	if rng.Intn(2) == 0 {
		newB = append(newB, &Decl{Const: &Const{Name: top.make(3), Type: ListOf(T(q)), Value: lits(inc, 1)}})
	}
	feat("included_struct_literal_constant")
	feat("const")
	var tdB *TypeDef
	if rng.Intn(3) == 0 {
		tdB = &TypeDef{Name: top.make(1), Type: MapOf(T("string"), T(q))}
		newB = append(newB, &Decl{TypeDef: tdB})
	}
	holdB := &Struct{Kind: KindStruct, Name: top.make(1)}
	{
		hn := &snNamer{rng: rng, used: map[string]bool{}}
		id := 0
		add := func(t *Type, def interface{}) {
			id += 1 + rng.Intn(3)
			req := ReqDefault
			if rng.Intn(4) == 0 {
				req = ReqRequired
			}
			holdB.Fields = append(holdB.Fields, &Field{ID: id, Name: hn.make(rng.Intn(3)), Req: req, Type: t, Default: def})
		}
		// list of the included struct (always)
		lt := ListOf(T(q))
		if tdA != nil && rng.Intn(2) == 0 {
			lt = T(A.Base + "." + tdA.Name)
			feat("included_struct_literal_via_typedef")
		}
		add(lt, lits(inc, 1))
		feat("included_struct_literal_in_list_default")
		feat("field_default")
		add(T("string"), nil)
		if rng.Intn(3) > 0 {
			mt := MapOf(T("string"), T(q))
			if tdB != nil {
				mt = T(tdB.Name)
				feat("included_struct_literal_via_typedef")
			}
			add(mt, mapLits(inc, func() interface{} { return structLit(inc) }))
			feat("included_struct_literal_in_map_default")
		}
		if rng.Intn(3) == 0 {
			add(MapOf(T("string"), ListOf(T(q))), mapLits(inc, func() interface{} { return lits(inc, 0) }))
			feat("included_struct_literal_in_nested_default")
		}
		if rng.Intn(2) == 0 {
			// control: the same constructs with the LOCAL struct of that name
			add(ListOf(T(clash)), lits(loc, 1))
			feat("local_struct_literal_in_default")
		}
		if rng.Intn(2) == 0 {
			add(ListOf(T(q)), nil) // same type, no default
		}
		rng.Shuffle(len(holdB.Fields), func(i, j int) {
			a, b := holdB.Fields[i], holdB.Fields[j]
			a.Name, b.Name = b.Name, a.Name
			a.Type, b.Type = b.Type, a.Type
			a.Req, b.Req = b.Req, a.Req
			a.Default, b.Default = b.Default, a.Default
		})
	}
	newB = append(newB, &Decl{Struct: holdB})
	if !localFirst {
		newB = append(newB, &Decl{Struct: loc})
	}
	// types and constants before the first service / scope of B
	at := len(B.Decls)
	for i, d := range B.Decls {
		if d.Service != nil || d.Scope != nil {
			at = i
			break
		}
	}
	decls := append([]*Decl{}, B.Decls[:at]...)
	decls = append(decls, newB...)
	decls = append(decls, B.Decls[at:]...)
	B.Decls = decls
}

// AVFromLiteralStructs is AVFromLiteral extended with IDL struct literals
// (`{"field": value, ...}`, model: []KV with string keys) at any depth of a
// container literal.  It answers nil when the literal leaves out a
// non-optional field (what such a field then holds is not something the
// model decides), names an unknown field, or contains a form AVFromLiteral
// does not know.
func (p *Program) AVFromLiteralStructs(f *File, t *Type, lit interface{}) *AV {
	kind, u, uf, r := p.ResolveKind(f, t)
	switch kind {
	case "struct":
		kv, ok := lit.([]KV)
		if !ok || r.Struct.Kind == KindUnion {
			return nil
		}
		av := &AV{Kind: "struct", St: r.Struct, StFile: r.File, Fields: map[int]*AV{}}
		for _, e := range kv {
			name, ok := e.Key.(string)
			if !ok {
				return nil
			}
			var fl *Field
			for _, x := range r.Struct.Fields {
				if x.Name == name {
					fl = x
				}
			}
			if fl == nil {
				return nil
			}
			v := p.AVFromLiteralStructs(r.File, fl.Type, e.Value)
			if v == nil {
				return nil
			}
			av.Fields[fl.ID] = v
		}
		for _, fl := range r.Struct.Fields {
			if _, set := av.Fields[fl.ID]; !set && fl.Req != ReqOptional {
				return nil
			}
			if _, set := av.Fields[fl.ID]; !set && fl.Default != nil {
				return nil
			}
		}
		return av
	case "list", "set":
		l, ok := lit.([]interface{})
		if !ok {
			return nil
		}
		av := &AV{Kind: kind, ElemType: u.Val, ElemFile: uf}
		for _, e := range l {
			x := p.AVFromLiteralStructs(uf, u.Val, e)
			if x == nil {
				return nil
			}
			av.Elems = append(av.Elems, x)
		}
		return av
	case "map":
		l, ok := lit.([]KV)
		if !ok {
			return nil
		}
		av := &AV{Kind: kind, ElemType: u.Val, KeyType: u.Key, ElemFile: uf}
		for _, e := range l {
			k := p.AVFromLiteralStructs(uf, u.Key, e.Key)
			v := p.AVFromLiteralStructs(uf, u.Val, e.Value)
			if k == nil || v == nil {
				return nil
			}
			av.Keys = append(av.Keys, k)
			av.Vals = append(av.Vals, v)
		}
		return av
	}
	return p.AVFromLiteral(f, t, lit)
}

// LeaveStructLiteralDefaults walks a value drawn by GenValue and, for
// non-optional fields whose declared default contains struct literals (which
// GenValue never leaves at their default: AVFromLiteral does not model them),
// replaces the drawn value of some of them by the declared default marked
// LeftAtDefault.  It uses its own PRNG and draws only at such fields, so
// values of programs without struct literals are untouched.
func (p *Program) LeaveStructLiteralDefaults(rng *rand.Rand, av *AV) {
	if av == nil {
		return
	}
	switch av.Kind {
	case "struct":
		for _, fl := range av.St.Fields {
			x, ok := av.Fields[fl.ID]
			if !ok {
				continue
			}
			if av.St.Kind != KindUnion && fl.Req != ReqOptional && fl.Default != nil && !x.LeftAtDefault && p.AVFromLiteral(av.StFile, fl.Type, fl.Default) == nil {
				if d := p.AVFromLiteralStructs(av.StFile, fl.Type, fl.Default); d != nil && rng.Intn(2) == 0 {
					d.LeftAtDefault = true
					LeftAtDefaultCount++
					av.Fields[fl.ID] = d
					continue
				}
			}
			p.LeaveStructLiteralDefaults(rng, x)
		}
	case "list", "set":
		for _, e := range av.Elems {
			p.LeaveStructLiteralDefaults(rng, e)
		}
	case "map":
		for i := range av.Keys {
			p.LeaveStructLiteralDefaults(rng, av.Keys[i])
			p.LeaveStructLiteralDefaults(rng, av.Vals[i])
		}
	}
}
