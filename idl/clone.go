package idl

// Deep copies of the model: an edited program never shares a pointer with the
// program it was derived from.

func cloneStrings(s []string) []string {
	if s == nil {
		return nil
	}
	return append([]string{}, s...)
}

func cloneAnn(a []Annotation) []Annotation {
	if a == nil {
		return nil
	}
	return append([]Annotation{}, a...)
}

// CloneValue deep-copies a constant value (int64, float64, string, bool,
// Ident, []interface{}, []KV).
func CloneValue(v interface{}) interface{} {
	switch x := v.(type) {
	case []interface{}:
		out := make([]interface{}, len(x))
		for i, e := range x {
			out[i] = CloneValue(e)
		}
		return out
	case []KV:
		out := make([]KV, len(x))
		for i, e := range x {
			out[i] = KV{Key: CloneValue(e.Key), Value: CloneValue(e.Value)}
		}
		return out
	}
	return v
}

// Clone deep-copies a field.
func (f *Field) Clone() *Field {
	if f == nil {
		return nil
	}
	return &Field{Comment: cloneStrings(f.Comment), ID: f.ID, Name: f.Name, Req: f.Req, Type: f.Type.Clone(),
		Default: CloneValue(f.Default), Ann: cloneAnn(f.Ann)}
}

func cloneFields(fs []*Field) []*Field {
	if fs == nil {
		return nil
	}
	out := make([]*Field, len(fs))
	for i, f := range fs {
		out[i] = f.Clone()
	}
	return out
}

// Clone deep-copies a typedef.
func (t *TypeDef) Clone() *TypeDef {
	return &TypeDef{Comment: cloneStrings(t.Comment), Name: t.Name, Type: t.Type.Clone(), Ann: cloneAnn(t.Ann)}
}

// Clone deep-copies an enum.
func (e *Enum) Clone() *Enum {
	out := &Enum{Comment: cloneStrings(e.Comment), Name: e.Name, Ann: cloneAnn(e.Ann)}
	for _, v := range e.Values {
		out.Values = append(out.Values, &EnumValue{Comment: cloneStrings(v.Comment), Name: v.Name, Value: v.Value, Explicit: v.Explicit, Ann: cloneAnn(v.Ann)})
	}
	return out
}

// Clone deep-copies a constant.
func (c *Const) Clone() *Const {
	return &Const{Comment: cloneStrings(c.Comment), Name: c.Name, Type: c.Type.Clone(), Value: CloneValue(c.Value), Ann: cloneAnn(c.Ann)}
}

// Clone deep-copies a struct-like.
func (s *Struct) Clone() *Struct {
	return &Struct{Kind: s.Kind, Comment: cloneStrings(s.Comment), Name: s.Name, Fields: cloneFields(s.Fields), Ann: cloneAnn(s.Ann)}
}

// Clone deep-copies a method.
func (m *Method) Clone() *Method {
	return &Method{Comment: cloneStrings(m.Comment), Name: m.Name, Oneway: m.Oneway, Ret: m.Ret.Clone(),
		Args: cloneFields(m.Args), Throws: cloneFields(m.Throws), Ann: cloneAnn(m.Ann)}
}

// Clone deep-copies a service.
func (s *Service) Clone() *Service {
	out := &Service{Comment: cloneStrings(s.Comment), Name: s.Name, Extends: s.Extends, Ann: cloneAnn(s.Ann)}
	for _, m := range s.Methods {
		out.Methods = append(out.Methods, m.Clone())
	}
	return out
}

// Clone deep-copies a scope.
func (s *Scope) Clone() *Scope {
	out := &Scope{Comment: cloneStrings(s.Comment), Name: s.Name, Prefix: s.Prefix, Ann: cloneAnn(s.Ann)}
	for _, op := range s.Ops {
		out.Ops = append(out.Ops, &Operation{Comment: cloneStrings(op.Comment), Name: op.Name, Type: op.Type.Clone(), Ann: cloneAnn(op.Ann)})
	}
	return out
}

// Clone deep-copies a declaration.
func (d *Decl) Clone() *Decl {
	out := &Decl{}
	switch {
	case d.TypeDef != nil:
		out.TypeDef = d.TypeDef.Clone()
	case d.Enum != nil:
		out.Enum = d.Enum.Clone()
	case d.Const != nil:
		out.Const = d.Const.Clone()
	case d.Struct != nil:
		out.Struct = d.Struct.Clone()
	case d.Service != nil:
		out.Service = d.Service.Clone()
	case d.Scope != nil:
		out.Scope = d.Scope.Clone()
	}
	return out
}

// Clone deep-copies a file.
func (f *File) Clone() *File {
	out := &File{Base: f.Base, Ext: f.Ext}
	for _, i := range f.Includes {
		out.Includes = append(out.Includes, &Include{Path: i.Path})
	}
	for _, n := range f.Namespaces {
		out.Namespaces = append(out.Namespaces, &Namespace{Lang: n.Lang, Value: n.Value})
	}
	for _, d := range f.Decls {
		out.Decls = append(out.Decls, d.Clone())
	}
	return out
}

// Clone deep-copies a program (files, declarations, types, values, feature
// tags).
func (p *Program) Clone() *Program {
	out := &Program{Features: map[string]bool{}}
	for k, v := range p.Features {
		out.Features[k] = v
	}
	for _, f := range p.Files {
		out.Files = append(out.Files, f.Clone())
	}
	return out
}
