package idl

import (
	"fmt"
	"math/rand"
	"os"
	"path/filepath"
	"strconv"
	"strings"
)

// Style holds the lexical knobs of the renderer.  Every combination renders
// the same model; the parser must not care.
type Style struct {
	FieldSep   string // after struct fields, arguments, throws: "," ";" or ""
	EnumSep    string // after enum values
	FuncSep    string // after service functions
	OpSep      string // after scope operations
	StmtEnd    string // after top-level statements: "" (newline only) or ";"
	Indent     string
	Quote      byte // '"' or '\''
	Gap        int  // comment kind placed in the gaps between statements/fields: 0 none 1 "//" 2 "#" 3 "/* */" 4 multi-line "/* */" 5 "/** */" (not a docstring)
	Inline     bool // "/* c */" between the tokens of one statement
	Blank      int  // extra blank lines between statements
	BraceNL    bool // opening brace on its own line
	AngleWS    bool // whitespace inside <...>
	TrailingNL bool // file ends with a newline
	CRLF       bool // "\r\n" line ends
	Tabs       bool // tab instead of single spaces between tokens
	// ZeroPad > 0 writes every integer literal (constant values, list / map
	// elements, defaults, explicit enum values, field ids) with that many
	// leading zeros -- Thrift integers are decimal, 010 is ten -- and doubles
	// as a zero-padded mantissa with a (two-digit, zero-padded) exponent.
	// Not drawn by RandomStyle and not shown by String() when 0, so existing
	// users of the package see no change; C10 sets it itself.
	ZeroPad int
	// BareCR > 0 uses a carriage return as plain white space (Thrift's lexer
	// skips [ \t\r\n]*), never inside /**@ docstrings or literals:
	// 1 = line ends "\r\r\n", 2 = a CR in front of every line's indentation,
	// 3 = a CR instead of the blank between the tokens of a statement.
	// Like ZeroPad: not drawn by RandomStyle, not shown by String() when 0.
	BareCR int
	// Wrap > 0 breaks the line at the places inside one declaration where the
	// grammar (like Thrift's lexer everywhere) lets white space span lines:
	// between "oneway" and the return type, the return type and the method
	// name, ")" and "throws", "throws" and "(", a field name and its "=", an
	// operation's ":" and its type.  1 = bare line break, 2 = "// w" line
	// comment then the break, 3 = "# w" then the break, 4 = break then a
	// "/* w */" block comment.  Like ZeroPad: not drawn by RandomStyle, not
	// shown by String() when 0.
	Wrap int
}

// DefaultStyle is the plain rendering.
func DefaultStyle() Style {
	return Style{FieldSep: ",", EnumSep: ",", FuncSep: ",", OpSep: "", StmtEnd: "", Indent: "  ", Quote: '"', TrailingNL: true}
}

// RandomStyle draws every knob.
func RandomStyle(rng *rand.Rand) Style {
	seps := []string{",", ";", ""}
	s := Style{
		FieldSep: seps[rng.Intn(3)], EnumSep: seps[rng.Intn(3)], FuncSep: seps[rng.Intn(3)], OpSep: seps[rng.Intn(3)],
		StmtEnd: []string{"", ";"}[rng.Intn(2)],
		Indent:  []string{"", " ", "  ", "    ", "\t"}[rng.Intn(5)],
		Quote:   []byte{'"', '\''}[rng.Intn(2)],
		Gap:     rng.Intn(6), Inline: rng.Intn(3) == 0, Blank: rng.Intn(3), BraceNL: rng.Intn(4) == 0,
		AngleWS: rng.Intn(3) == 0, TrailingNL: rng.Intn(4) != 0, CRLF: rng.Intn(6) == 0, Tabs: rng.Intn(6) == 0,
	}
	return s
}

// String names the style compactly (used as the distinct-case key).
func (s Style) String() string {
	out := fmt.Sprintf("f%q e%q m%q o%q s%q i%q q%c g%d in%v b%d br%v a%v t%v cr%v tb%v", s.FieldSep, s.EnumSep, s.FuncSep, s.OpSep, s.StmtEnd, s.Indent, s.Quote, s.Gap, s.Inline, s.Blank, s.BraceNL, s.AngleWS, s.TrailingNL, s.CRLF, s.Tabs)
	if s.ZeroPad > 0 {
		out += fmt.Sprintf(" z%d", s.ZeroPad)
	}
	if s.BareCR > 0 {
		out += fmt.Sprintf(" barecr%d", s.BareCR)
	}
	if s.Wrap > 0 {
		out += fmt.Sprintf(" wrap%d", s.Wrap)
	}
	return out
}

// integer renders an integer literal under the ZeroPad knob.
func (r *renderer) integer(v int64) string {
	s := strconv.FormatInt(v, 10)
	if r.s.ZeroPad <= 0 {
		return s
	}
	pad := strings.Repeat("0", r.s.ZeroPad)
	if s[0] == '-' {
		return "-" + pad + s[1:]
	}
	return pad + s
}

type renderer struct {
	s Style
	b strings.Builder
	n int
}

func (r *renderer) sp() string {
	if r.s.BareCR == 3 {
		return "\r"
	}
	if r.s.Tabs {
		return "\t"
	}
	return " "
}

// wrap returns the separator at a place where a declaration may continue on
// the next line (see Style.Wrap).
func (r *renderer) wrap(indent string) string {
	switch r.s.Wrap {
	case 1:
		return "\n" + indent
	case 2:
		r.n++
		return r.sp() + "// w" + strconv.Itoa(r.n) + "\n" + indent
	case 3:
		r.n++
		return r.sp() + "# w" + strconv.Itoa(r.n) + "\n" + indent
	case 4:
		r.n++
		return "\n" + indent + "/* w" + strconv.Itoa(r.n) + " */" + r.sp()
	}
	return r.sp()
}

// in returns the separator between two tokens of one statement.
func (r *renderer) in() string {
	if r.s.Inline {
		r.n++
		if r.n%3 == 0 {
			return r.sp() + "/* c" + strconv.Itoa(r.n) + " */" + r.sp()
		}
	}
	return r.sp()
}

func (r *renderer) gap(indent string) {
	r.n++
	switch r.s.Gap {
	case 1:
		r.b.WriteString(indent + "// gap comment " + strconv.Itoa(r.n) + "\n")
	case 2:
		r.b.WriteString(indent + "# hash comment " + strconv.Itoa(r.n) + "\n")
	case 3:
		r.b.WriteString(indent + "/* block comment " + strconv.Itoa(r.n) + " */\n")
	case 4:
		r.b.WriteString(indent + "/* multi\n" + indent + "   line " + strconv.Itoa(r.n) + "\n" + indent + " */\n")
	case 5:
		r.b.WriteString(indent + "/** javadoc-looking, not a docstring " + strconv.Itoa(r.n) + " */\n")
	}
}

func (r *renderer) doc(indent string, c []string) {
	if len(c) == 0 {
		return
	}
	if len(c) == 1 {
		r.b.WriteString(indent + "/**@ " + c[0] + " */\n")
		return
	}
	r.b.WriteString(indent + "/**@\n")
	for _, l := range c {
		r.b.WriteString(indent + " * " + l + "\n")
	}
	r.b.WriteString(indent + " */\n")
}

func (r *renderer) lit(s string) string {
	if r.s.Quote == '\'' {
		// single-quoted literal: the grammar turns \' into ', then unquotes as a Go string
		q := strconv.Quote(s)
		q = q[1 : len(q)-1]
		q = strings.ReplaceAll(q, `\"`, `"`)
		q = strings.ReplaceAll(q, `'`, `\'`)
		return "'" + q + "'"
	}
	return strconv.Quote(s)
}

func (r *renderer) ann(a []Annotation) string {
	if len(a) == 0 {
		return ""
	}
	var parts []string
	for _, x := range a {
		parts = append(parts, x.Name+r.sp()+"="+r.sp()+r.lit(x.Value))
	}
	return r.sp() + "(" + strings.Join(parts, ","+r.sp()) + ")"
}

func (r *renderer) typ(t *Type) string {
	w := ""
	if r.s.AngleWS {
		w = " "
	}
	switch t.Name {
	case "map":
		return "map<" + w + r.typ(t.Key) + w + "," + w + r.typ(t.Val) + w + ">"
	case "list":
		return "list<" + w + r.typ(t.Val) + w + ">"
	case "set":
		return "set<" + w + r.typ(t.Val) + w + ">"
	}
	return t.Name
}

// Value renders a constant value.
func (r *renderer) value(v interface{}) string {
	switch x := v.(type) {
	case bool:
		if x {
			return "true"
		}
		return "false"
	case int64:
		return r.integer(x)
	case int:
		return r.integer(int64(x))
	case float64:
		if r.s.ZeroPad > 0 { // 0012.5e+03: zero-padded mantissa, exponent form (Go pads the exponent to two digits)
			s := strconv.FormatFloat(x, 'e', -1, 64)
			mant, exp := s, ""
			if i := strings.IndexByte(s, 'e'); i >= 0 {
				mant, exp = s[:i], s[i:]
			}
			if !strings.Contains(mant, ".") {
				mant += ".0"
			}
			pad := strings.Repeat("0", r.s.ZeroPad)
			if mant[0] == '-' {
				return "-" + pad + mant[1:] + exp
			}
			return pad + mant + exp
		}
		s := strconv.FormatFloat(x, 'f', -1, 64)
		if !strings.Contains(s, ".") {
			s += ".0"
		}
		return s
	case string:
		return r.lit(x)
	case Ident:
		return string(x)
	case []interface{}:
		var parts []string
		for _, e := range x {
			parts = append(parts, r.value(e))
		}
		return "[" + strings.Join(parts, ","+r.sp()) + "]"
	case []KV:
		var parts []string
		for _, e := range x {
			parts = append(parts, r.value(e.Key)+":"+r.sp()+r.value(e.Value))
		}
		return "{" + strings.Join(parts, ","+r.sp()) + "}"
	}
	return fmt.Sprintf("%v", v)
}

func (r *renderer) field(indent string, f *Field, sep string) {
	r.doc(indent, f.Comment)
	r.b.WriteString(indent + r.integer(int64(f.ID)) + ":" + r.in())
	if f.Req != "" {
		r.b.WriteString(f.Req + r.in())
	}
	r.b.WriteString(r.typ(f.Type) + r.in() + f.Name)
	if f.Default != nil {
		r.b.WriteString(r.wrap(indent+" ") + "=" + r.sp() + r.value(f.Default))
	}
	r.b.WriteString(r.ann(f.Ann) + sep + "\n")
}

func (r *renderer) open(head string) {
	if r.s.BraceNL {
		r.b.WriteString(head + "\n{\n")
	} else {
		r.b.WriteString(head + r.sp() + "{\n")
	}
}

func (r *renderer) end(a []Annotation) {
	r.b.WriteString("}" + r.ann(a) + r.s.StmtEnd + "\n")
}

// RenderFile renders one file.
func RenderFile(f *File, s Style) string {
	r := &renderer{s: s}
	ind := s.Indent
	stmtGap := func() {
		for i := 0; i < s.Blank; i++ {
			r.b.WriteString("\n")
		}
		r.gap("")
	}
	for _, inc := range f.Includes {
		r.b.WriteString("include" + r.in() + r.lit(inc.Path) + s.StmtEnd + "\n")
	}
	for _, ns := range f.Namespaces {
		r.b.WriteString("namespace" + r.sp() + ns.Lang + r.sp() + ns.Value + s.StmtEnd + "\n")
	}
	for _, d := range f.Decls {
		stmtGap()
		switch {
		case d.TypeDef != nil:
			t := d.TypeDef
			r.doc("", t.Comment)
			r.b.WriteString("typedef" + r.in() + r.typ(t.Type) + r.in() + t.Name + r.ann(t.Ann) + s.StmtEnd + "\n")
		case d.Const != nil:
			c := d.Const
			r.doc("", c.Comment)
			r.b.WriteString("const" + r.in() + r.typ(c.Type) + r.in() + c.Name + r.sp() + "=" + r.sp() + r.value(c.Value) + r.ann(c.Ann) + s.StmtEnd + "\n")
		case d.Enum != nil:
			e := d.Enum
			r.doc("", e.Comment)
			r.open("enum" + r.sp() + e.Name)
			for _, v := range e.Values {
				r.gap(ind)
				r.doc(ind, v.Comment)
				r.b.WriteString(ind + v.Name)
				if v.Explicit {
					r.b.WriteString(r.sp() + "=" + r.sp() + r.integer(int64(v.Value)))
				}
				r.b.WriteString(r.ann(v.Ann) + s.EnumSep + "\n")
			}
			r.end(e.Ann)
		case d.Struct != nil:
			st := d.Struct
			r.doc("", st.Comment)
			r.open(st.Kind + r.sp() + st.Name)
			for _, fl := range st.Fields {
				r.gap(ind)
				r.field(ind, fl, s.FieldSep)
			}
			r.end(st.Ann)
		case d.Service != nil:
			sv := d.Service
			r.doc("", sv.Comment)
			head := "service" + r.sp() + sv.Name
			if sv.Extends != "" {
				head += r.sp() + "extends" + r.sp() + sv.Extends
			}
			r.open(head)
			for _, m := range sv.Methods {
				r.gap(ind)
				r.doc(ind, m.Comment)
				r.b.WriteString(ind)
				if m.Oneway {
					r.b.WriteString("oneway" + r.wrap(ind+" "))
				}
				if m.Ret == nil {
					r.b.WriteString("void")
				} else {
					r.b.WriteString(r.typ(m.Ret))
				}
				r.b.WriteString(r.wrap(ind+" ") + m.Name + "(")
				if len(m.Args) > 0 {
					r.b.WriteString("\n")
					for _, a := range m.Args {
						r.field(ind+ind+" ", a, s.FieldSep)
					}
					r.b.WriteString(ind)
				}
				r.b.WriteString(")")
				if len(m.Throws) > 0 {
					r.b.WriteString(r.wrap(ind+" ") + "throws" + r.wrap(ind+" ") + "(\n")
					for _, a := range m.Throws {
						r.field(ind+ind+" ", a, s.FieldSep)
					}
					r.b.WriteString(ind + ")")
				}
				r.b.WriteString(r.ann(m.Ann) + s.FuncSep + "\n")
			}
			r.end(sv.Ann)
		case d.Scope != nil:
			sc := d.Scope
			r.doc("", sc.Comment)
			head := "scope" + r.sp() + sc.Name
			if sc.Prefix != "" {
				head += r.sp() + "prefix" + r.sp() + sc.Prefix
			}
			r.open(head)
			for _, op := range sc.Ops {
				r.gap(ind)
				r.doc(ind, op.Comment)
				r.b.WriteString(ind + op.Name + ":" + r.wrap(ind+" ") + r.typ(op.Type) + r.ann(op.Ann) + s.OpSep + "\n")
			}
			r.end(sc.Ann)
		}
	}
	out := r.b.String()
	if !s.TrailingNL {
		out = strings.TrimRight(out, "\n")
	}
	if s.BareCR == 1 || s.BareCR == 2 {
		out = crLineBreaks(out, s.BareCR)
	}
	if s.CRLF {
		out = strings.ReplaceAll(out, "\n", "\r\n")
	}
	return out
}

// crLineBreaks rewrites every line break outside /**@ docstrings: mode 1 to
// "\r\r\n", mode 2 to "\n\r" (a CR in front of the next line's indentation).
func crLineBreaks(text string, mode int) string {
	var b strings.Builder
	inDoc := false
	for i := 0; i < len(text); i++ {
		switch {
		case !inDoc && strings.HasPrefix(text[i:], "/**@"):
			inDoc = true
		case inDoc && strings.HasPrefix(text[i:], "*/"):
			inDoc = false
		}
		if text[i] == '\n' && !inDoc {
			if mode == 1 {
				b.WriteString("\r\r\n")
			} else {
				b.WriteString("\n\r")
			}
			continue
		}
		b.WriteByte(text[i])
	}
	return b.String()
}

// WriteProgram renders every file of p into dir and returns the root path.
func WriteProgram(p *Program, dir string, s Style) (string, error) {
	if err := os.MkdirAll(dir, 0o755); err != nil {
		return "", err
	}
	for _, f := range p.Files {
		if err := os.WriteFile(filepath.Join(dir, f.FileName()), []byte(RenderFile(f, s)), 0o644); err != nil {
			return "", err
		}
	}
	return filepath.Join(dir, p.Root().FileName()), nil
}
