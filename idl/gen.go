package idl

import (
	"fmt"
	"math/rand"
	"strings"
	"sync"
)

// Config tunes the generator.  The zero value is not useful: use CoreConfig.
type Config struct {
	MinFiles, MaxFiles     int
	MinTypes, MaxTypes     int // struct-likes per file
	MaxFields              int
	MaxDepth               int // container nesting
	MaxServices, MaxScopes int
	MaxMethods, MaxArgs    int
	Consts, Defaults       bool
	Comments, Annotations  bool
	Namespaces             bool
	ThriftExt              bool // allow ".thrift" for files without scopes
	SelfReference          bool // optional field of the struct's own type
	ForwardRefs            bool // fields may reference structs declared later in the file

	ShadowNames bool // every typedef that can reuses the name of an included file's typedef (same core constructs, higher density)

	// Stress classes (legal but unusual); each sets a feature tag when used.
	AllCapsSnakeTypeNames    bool // struct / service / enum names like NECTAR_RAVEN
	ThrowsSameTypeTwice      bool // throws (1: E a, 2: E b)
	OddServiceNames          bool // lowerCamel / snake_case / ALLCAPS service names
	TypedefOfStruct          bool
	TypedefOfEnum            bool
	TransitiveTypedefs       bool // typedefs whose aliased type names another file's types
	BinaryKeys               bool
	NegativeEnumValues       bool
	KeywordPrefixedIdents    bool // stringList, i32x, voidResult, optionalThing ...
	TargetKeywordNames       bool // type, func, class, lambda ... as field/arg names
	GeneratorInternalNames   bool // fctx, err, r, args, result as arg names
	CaseTwinFields           bool // foo / Foo in one struct
	MethodReturnsTypedefEnum bool
	OneLetterPrefixVar       bool
	ExoticPrefixChars        bool
	I8Type                   bool // the base type i8 (alias of byte in Thrift) as field / argument / return type
	GeneratorDerivedNames    bool // type names shaped like the generators' own derived names: NewX, XArgs, XResult
	ConstMapNonStringKeys    bool // every file gets a constant map<i32,string> / map<bool,..> with entries
	ArgModifiers             bool // method arguments written with optional / required and with defaults
	DefaultsFromConstants    bool // field defaults that name a constant of the same file (container and base types)
	EnumNonAscending         bool // enums whose explicit numbers are not ascending, followed by members without a number
}

// keyword lists of the stress classes TargetKeywordNames / GeneratorInternalNames
// (all are plain identifiers for the Frugal grammar).
var (
	targetKeywordNames     = []string{"type", "func", "range", "class", "lambda", "def", "async", "await", "final", "var"}
	generatorInternalNames = []string{"fctx", "ctx", "r", "err", "args", "result", "iprot", "oprot", "p"}
)

// stressName returns a not yet used name of list (reserving it in n), "" when
// all are taken.
func (g *gen) stressName(n *namer, list []string) string {
	start := g.rng.Intn(len(list))
	for i := range list {
		w := list[(start+i)%len(list)]
		if n.reserve(w) {
			return w
		}
	}
	return ""
}

// CoreConfig is what a careful user writes every day.
func CoreConfig() Config {
	return Config{
		MinFiles: 1, MaxFiles: 3, MinTypes: 3, MaxTypes: 8, MaxFields: 7, MaxDepth: 3,
		MaxServices: 2, MaxScopes: 2, MaxMethods: 5, MaxArgs: 4,
		Consts: true, Defaults: true, Comments: true, Annotations: true, Namespaces: true,
		ThriftExt: true, SelfReference: true,
	}
}

var words = []string{
	"alpha", "bravo", "cargo", "delta", "ember", "fable", "gamma", "harbor", "iris", "jolt",
	"karma", "lumen", "metro", "nova", "orbit", "pixel", "quartz", "raven", "sigma", "tango",
	"umbra", "vapor", "willow", "xenon", "yonder", "zephyr", "amber", "birch", "cedar", "dune",
	"flint", "grove", "heron", "inlet", "jade", "kelp", "lotus", "maple", "nectar", "onyx",
}

// reserved in some target or by the generators' own emitted code
var denied = map[string]bool{}

func init() {
	for _, w := range strings.Fields(`
	 break default func interface select case defer go map struct chan else goto package switch const fallthrough if range type continue for import return var
	 abstract assert boolean byte char class double enum extends final finally float implements instanceof int long native new null private protected public short static strictfp super synchronized this throw throws transient try void volatile while true false
	 and as async await del elif except exec from global in is lambda nonlocal not or pass print raise with yield none self
	 dynamic external factory get set library operator part rethrow typedef var covariant mixin late required show hide on of sync
	 bool i8 i16 i32 i64 string binary list service scope oneway optional include namespace exception union prefix cpp_include
	 fctx ctx err r p f args result iprot oprot method success read write error equals hashcode tostring clone copy clear validate name value values key keys id len cap append make iota nil object string error
	 `) {
		denied[strings.ToLower(w)] = true
	}
}

var genMu sync.Mutex

type namer struct {
	rng  *rand.Rand
	used map[string]bool // normalized
}

func newNamer(rng *rand.Rand) *namer { return &namer{rng: rng, used: map[string]bool{}} }

// fileNamesDenied holds the base names of the program being generated: an
// identifier equal to an include name shadows the package / module generated
// for that include in several targets.
var fileNamesDenied = map[string]bool{}

func norm(s string) string { return strings.ToLower(strings.ReplaceAll(s, "_", "")) }

// style: 0 lowerCamel, 1 UpperCamel, 2 snake_case, 3 ALLCAPS_SNAKE
func (n *namer) make(style int, parts int) string {
	for {
		var ws []string
		for i := 0; i < parts; i++ {
			ws = append(ws, words[n.rng.Intn(len(words))])
		}
		if n.rng.Intn(4) == 0 {
			ws[len(ws)-1] += fmt.Sprint(n.rng.Intn(90) + 2)
		}
		var s string
		switch style {
		case 0:
			for i, w := range ws {
				if i == 0 {
					s += w
				} else {
					s += strings.Title(w)
				}
			}
		case 1:
			for _, w := range ws {
				s += strings.Title(w)
			}
		case 2:
			s = strings.Join(ws, "_")
		default:
			s = strings.ToUpper(strings.Join(ws, "_"))
		}
		k := norm(s)
		if denied[k] || n.used[k] || fileNamesDenied[k] {
			parts = 2
			continue
		}
		n.used[k] = true
		return s
	}
}

func (n *namer) reserve(s string) bool {
	k := norm(s)
	if n.used[k] {
		return false
	}
	n.used[k] = true
	return true
}

type gen struct {
	cfg  Config
	rng  *rand.Rand
	prog *Program
	// per file pools of referencable things (local names)
	file     *File
	types    *namer // type-level names of the current file
	enums    map[*File][]*Enum
	structs  map[*File][]*Struct // structs and unions (usable as field types)
	excepts  map[*File][]*Struct
	typedefs map[*File][]*TypeDef
	consts   map[*File][]*Const
	services map[*File][]*Service
	visible  []*File // files included by the current file
}

// Generate builds one random valid program.
func Generate(rng *rand.Rand, cfg Config) *Program {
	g := &gen{cfg: cfg, rng: rng, prog: &Program{Features: map[string]bool{}},
		enums: map[*File][]*Enum{}, structs: map[*File][]*Struct{}, excepts: map[*File][]*Struct{},
		typedefs: map[*File][]*TypeDef{}, consts: map[*File][]*Const{}, services: map[*File][]*Service{}}
	nfiles := cfg.MinFiles + rng.Intn(cfg.MaxFiles-cfg.MinFiles+1)
	genMu.Lock()
	defer genMu.Unlock()
	fileNamesDenied = map[string]bool{}
	fileNames := newNamer(rng)
	for i := 0; i < nfiles; i++ {
		f := &File{Base: fileNames.make(2, 1+rng.Intn(2)), Ext: ".frugal"}
		fileNamesDenied[norm(f.Base)] = true
		g.file = f
		g.types = newNamer(rng)
		g.visible = nil
		// includes: every earlier file with probability, at least one if any exists for the root
		for j, prev := range g.prog.Files {
			orphan := true // every file must be reachable from the root
			for _, other := range g.prog.Files {
				for _, inc := range other.Includes {
					if inc.Path == prev.FileName() {
						orphan = false
					}
				}
			}
			if rng.Intn(3) > 0 || (i == nfiles-1 && (orphan || j == len(g.prog.Files)-1)) {
				f.Includes = append(f.Includes, &Include{Path: prev.FileName()})
				g.visible = append(g.visible, prev)
			}
		}
		if len(f.Includes) > 0 {
			g.feat("includes")
		}
		if cfg.Namespaces {
			g.genNamespaces(f)
		}
		g.genFile(f, i == nfiles-1)
		if cfg.ThriftExt && len(f.Scopes()) == 0 && rng.Intn(4) == 0 {
			// rename to .thrift: includes referring to it are created later, so safe here
			f.Ext = ".thrift"
			g.feat("thrift_extension")
		}
		g.prog.Files = append(g.prog.Files, f)
	}
	return g.prog
}

func (g *gen) feat(s string) { g.prog.Features[s] = true }

func (g *gen) genNamespaces(f *File) {
	langs := []string{"go", "java", "py", "dart", "*"}
	g.rng.Shuffle(len(langs), func(i, j int) { langs[i], langs[j] = langs[j], langs[i] })
	n := g.rng.Intn(4)
	for _, l := range langs[:n] {
		v := f.Base
		if g.rng.Intn(2) == 0 {
			v = words[g.rng.Intn(len(words))] + "." + f.Base
			if l == "go" || l == "dart" {
				v = words[g.rng.Intn(len(words))] + "_" + f.Base
			}
		}
		f.Namespaces = append(f.Namespaces, &Namespace{Lang: l, Value: v})
		g.feat("namespace_" + strings.ReplaceAll(l, "*", "star"))
	}
}

func (g *gen) comment() []string {
	if !g.cfg.Comments || g.rng.Intn(4) != 0 {
		return nil
	}
	g.feat("docstrings")
	if g.rng.Intn(3) == 0 {
		return []string{"First line of the doc.", "second line with symbols: <a> & 'b' \"c\""}
	}
	return []string{"Documents the " + words[g.rng.Intn(len(words))] + "."}
}

func (g *gen) annotations() []Annotation {
	if !g.cfg.Annotations || g.rng.Intn(6) != 0 {
		return nil
	}
	g.feat("annotations")
	out := []Annotation{{Name: words[g.rng.Intn(len(words))], Value: "v" + fmt.Sprint(g.rng.Intn(100))}}
	if g.rng.Intn(4) == 0 {
		out[0].Value = []string{"tab\tsep", "back\\slash", "it's", "say \"hi\""}[g.rng.Intn(4)]
		g.feat("annotation_value_with_escape")
	}
	if g.rng.Intn(3) == 0 {
		out = append(out, Annotation{Name: "note." + words[g.rng.Intn(len(words))], Value: "two words"})
	}
	return out
}

func (g *gen) typeName() string {
	if g.cfg.GeneratorDerivedNames && g.rng.Intn(3) == 0 {
		base := g.types.make(1, 1)
		name := []string{"New" + base, base + "Args", base + "Result"}[g.rng.Intn(3)]
		if g.types.reserve(name) {
			g.feat("generator_derived_names")
			return name
		}
	}
	style := 1
	switch r := g.rng.Intn(10); {
	case r < 6:
		style = 1
	case r < 8:
		style = 0
		g.feat("type_name_lowercase")
	case r < 9:
		style = 2
		g.feat("type_name_snake")
	default:
		if g.cfg.AllCapsSnakeTypeNames {
			g.feat("type_name_allcaps_snake")
			return g.types.make(3, 2)
		}
		g.feat("type_name_allcaps")
		for {
			if n := g.types.make(3, 1); !strings.Contains(n, "_") {
				return n
			}
		}
	}
	return g.types.make(style, 1+g.rng.Intn(2))
}

func (g *gen) genFile(f *File, root bool) {
	cfg := g.cfg
	add := func(d *Decl) { f.Decls = append(f.Decls, d) }
	// enums first (so that everything can use them)
	for i, n := 0, 1+g.rng.Intn(3); i < n; i++ {
		e := g.genEnum()
		g.enums[f] = append(g.enums[f], e)
		add(&Decl{Enum: e})
	}
	// a few typedefs of base / container / enum types
	ntd := g.rng.Intn(3)
	if cfg.ShadowNames {
		ntd = 2 + g.rng.Intn(3)
	}
	for i, n := 0, ntd; i < n; i++ {
		if td := g.genTypeDef(); td != nil {
			g.typedefs[f] = append(g.typedefs[f], td)
			add(&Decl{TypeDef: td})
		}
	}
	if (cfg.TypedefOfEnum || cfg.MethodReturnsTypedefEnum) && len(g.enums[f]) > 0 {
		// the stress class must be present in every file of its pool
		e := g.enums[f][g.rng.Intn(len(g.enums[f]))]
		td := &TypeDef{Type: T(e.Name), Name: g.typeName()}
		g.feat("typedef_of_enum")
		g.typedefs[f] = append(g.typedefs[f], td)
		add(&Decl{TypeDef: td})
	}
	// struct-likes
	nTypes := cfg.MinTypes + g.rng.Intn(cfg.MaxTypes-cfg.MinTypes+1)
	// pre-allocate names when forward references are allowed
	var pending []*Struct
	for i := 0; i < nTypes; i++ {
		kind := KindStruct
		switch r := g.rng.Intn(10); {
		case r < 6:
		case r < 8:
			kind = KindException
		default:
			kind = KindUnion
		}
		pending = append(pending, &Struct{Kind: kind, Name: g.typeName()})
	}
	hasExc := false
	for _, s := range pending {
		if s.Kind == KindException {
			hasExc = true
		}
	}
	if !hasExc && len(g.allExceptions()) == 0 {
		pending[len(pending)-1].Kind = KindException
	}
	for i, s := range pending {
		var later []*Struct
		if cfg.ForwardRefs {
			for _, l := range pending[i+1:] {
				if l.Kind != KindException {
					later = append(later, l)
				}
			}
		}
		g.fillStruct(s, later)
		if s.Kind == KindException {
			g.excepts[f] = append(g.excepts[f], s)
		} else {
			g.structs[f] = append(g.structs[f], s)
		}
		add(&Decl{Struct: s})
		// typedefs interleaved with structs (typedef of struct is a stress class)
		if g.rng.Intn(5) == 0 {
			if td := g.genTypeDef(); td != nil {
				g.typedefs[f] = append(g.typedefs[f], td)
				add(&Decl{TypeDef: td})
			}
		}
	}
	if cfg.TypedefOfStruct && len(g.structs[f]) > 0 {
		st := g.structs[f][g.rng.Intn(len(g.structs[f]))]
		td := &TypeDef{Type: T(st.Name), Name: g.typeName()}
		g.feat("typedef_of_struct")
		g.typedefs[f] = append(g.typedefs[f], td)
		add(&Decl{TypeDef: td})
	}
	if cfg.ConstMapNonStringKeys {
		var c *Const
		if g.rng.Intn(2) == 0 {
			c = &Const{Name: g.types.make(3, 2), Type: MapOf(T("i32"), T("string")), Value: []KV{{int64(1), "a"}, {int64(-2), "b"}}}
		} else {
			c = &Const{Name: g.types.make(3, 2), Type: MapOf(T("bool"), T("i64")), Value: []KV{{true, int64(1)}}}
		}
		g.feat("const_map_non_string_key")
		g.consts[f] = append(g.consts[f], c)
		add(&Decl{Const: c})
	}
	if cfg.Consts {
		for i, n := 0, g.rng.Intn(4); i < n; i++ {
			c := g.genConst()
			g.consts[f] = append(g.consts[f], c)
			add(&Decl{Const: c})
		}
	}
	if cfg.DefaultsFromConstants {
		// a list, a map and an i32 constant per file, and struct fields of
		// exactly those types whose default is the constant's name
		cs := []*Const{
			{Name: g.types.make(3, 2), Type: ListOf(T("i32")), Value: []interface{}{int64(2), int64(3)}},
			{Name: g.types.make(3, 2), Type: MapOf(T("string"), T("i32")), Value: []KV{{"a", int64(1)}}},
			{Name: g.types.make(3, 2), Type: SetOf(T("string")), Value: []interface{}{"x"}},
			{Name: g.types.make(3, 2), Type: T("i32"), Value: int64(7)},
		}
		for _, c := range cs {
			g.consts[f] = append(g.consts[f], c)
			add(&Decl{Const: c})
		}
		for _, st := range f.Structs() {
			if st.Kind == KindUnion || g.rng.Intn(2) == 0 {
				continue
			}
			id := 0
			for _, fl := range st.Fields {
				if fl.ID > id {
					id = fl.ID
				}
			}
			c := cs[g.rng.Intn(len(cs))]
			req := []string{ReqDefault, ReqOptional, ReqRequired}[g.rng.Intn(3)]
			st.Fields = append(st.Fields, &Field{ID: id + 1, Name: "zzFromConst", Req: req, Type: c.Type.Clone(), Default: Ident(c.Name)})
			g.feat("default_from_named_constant")
		}
	}
	nsvc := g.rng.Intn(cfg.MaxServices + 1)
	if root && nsvc == 0 && cfg.MaxServices > 0 {
		nsvc = 1
	}
	for i := 0; i < nsvc; i++ {
		s := g.genService()
		g.services[f] = append(g.services[f], s)
		add(&Decl{Service: s})
	}
	nsc := g.rng.Intn(cfg.MaxScopes + 1)
	if root && nsc == 0 && cfg.MaxScopes > 0 && g.rng.Intn(2) == 0 {
		nsc = 1
	}
	for i := 0; i < nsc; i++ {
		add(&Decl{Scope: g.genScope()})
	}
}

func (g *gen) genEnum() *Enum {
	e := &Enum{Comment: g.comment(), Name: g.typeName(), Ann: g.annotations()}
	vn := newNamer(g.rng)
	if g.cfg.EnumNonAscending && g.rng.Intn(2) == 0 {
		// HIGH = 7, LOW = 2, NEXT, LAST = 4, MORE: distinct explicit numbers in a
		// non-ascending order, members without a number in between and after.
		// Frugal numbers such a member one past the highest number seen so
		// far; that rule is what the model records.
		g.feat("enum_non_ascending_explicit")
		explicit := g.rng.Perm(9)[:2+g.rng.Intn(3)]
		if explicit[0] < explicit[1] {
			explicit[0], explicit[1] = explicit[1], explicit[0]
		}
		max := -1
		for k, x := range explicit {
			x *= 3 // multiples of 3: a number given implicitly (max+1, max+2) never equals a later explicit one
			e.Values = append(e.Values, &EnumValue{Name: vn.make(3, 1), Value: x, Explicit: true})
			if x > max {
				max = x
			}
			if k >= 1 && g.rng.Intn(2) == 0 || k == len(explicit)-1 {
				max++
				e.Values = append(e.Values, &EnumValue{Name: vn.make(3, 1), Value: max})
			}
		}
		return e
	}
	n := 1 + g.rng.Intn(5)
	mode := g.rng.Intn(3) // 0 implicit, 1 all explicit, 2 mixed
	next := 0
	for i := 0; i < n; i++ {
		v := &EnumValue{Comment: g.comment(), Name: vn.make(3, 1), Ann: g.annotations()}
		explicit := mode == 1 || (mode == 2 && g.rng.Intn(2) == 0)
		if explicit {
			v.Explicit = true
			v.Value = next + g.rng.Intn(4)
			if g.cfg.NegativeEnumValues && i == 0 && g.rng.Intn(2) == 0 {
				v.Value = -1 - g.rng.Intn(3)
				g.feat("negative_enum_value")
			}
			g.feat("enum_explicit_values")
		} else {
			v.Value = next
			g.feat("enum_implicit_values")
		}
		next = v.Value + 1
		e.Values = append(e.Values, v)
	}
	return e
}

// keyable reports whether a type may be a map key / set element in every
// target (base types except binary, enums, typedefs of those).
func (g *gen) keyType() *Type {
	for {
		switch r := g.rng.Intn(12); {
		case r < 7:
			b := []string{"bool", "byte", "i16", "i32", "i64", "double", "string"}[g.rng.Intn(7)]
			if b == "double" && g.rng.Intn(2) == 0 {
				continue
			}
			return T(b)
		case r < 8 && g.cfg.BinaryKeys:
			g.feat("binary_key")
			return T("binary")
		case r < 10:
			if e, f := g.pickEnum(); e != nil {
				g.feat("enum_key")
				return T(g.ref(f, e.Name))
			}
		default:
			if td, f := g.pickTypeDef(func(t *Type, tf *File) bool {
				u, _ := g.prog.underlyingWith(g.file, tf, t)
				return IsBase(u.Name) && u.Name != "binary"
			}); td != nil {
				g.feat("typedef_key")
				return T(g.ref(f, td.Name))
			}
		}
	}
}

// underlyingWith resolves t written in file tf, with the current (not yet
// appended) file cur also visible.
func (p *Program) underlyingWith(cur, tf *File, t *Type) (*Type, *File) {
	files := p.Files
	found := false
	for _, f := range files {
		if f == cur {
			found = true
		}
	}
	if !found {
		p.Files = append(p.Files, cur)
		defer func() { p.Files = files }()
	}
	return p.Underlying(tf, t)
}

func (g *gen) ref(f *File, name string) string {
	if f == g.file {
		return name
	}
	g.feat("cross_file_reference")
	return f.Base + "." + name
}

func (g *gen) pickEnum() (*Enum, *File) {
	var es []*Enum
	var fs []*File
	for _, f := range append([]*File{g.file}, g.visible...) {
		for _, e := range g.enums[f] {
			es = append(es, e)
			fs = append(fs, f)
		}
	}
	if len(es) == 0 {
		return nil, nil
	}
	i := g.rng.Intn(len(es))
	return es[i], fs[i]
}

func (g *gen) pickStruct(extra []*Struct) (*Struct, *File) {
	var ss []*Struct
	var fs []*File
	for _, f := range append([]*File{g.file}, g.visible...) {
		for _, s := range g.structs[f] {
			ss = append(ss, s)
			fs = append(fs, f)
		}
	}
	for _, s := range extra {
		ss = append(ss, s)
		fs = append(fs, g.file)
	}
	if len(ss) == 0 {
		return nil, nil
	}
	i := g.rng.Intn(len(ss))
	return ss[i], fs[i]
}

func (g *gen) pickTypeDef(ok func(*Type, *File) bool) (*TypeDef, *File) {
	var ts []*TypeDef
	var fs []*File
	for _, f := range append([]*File{g.file}, g.visible...) {
		for _, t := range g.typedefs[f] {
			if ok == nil || ok(t.Type, f) {
				ts = append(ts, t)
				fs = append(fs, f)
			}
		}
	}
	if len(ts) == 0 {
		return nil, nil
	}
	i := g.rng.Intn(len(ts))
	return ts[i], fs[i]
}

func (g *gen) allExceptions() []*Struct {
	var out []*Struct
	for _, f := range append([]*File{g.file}, g.visible...) {
		out = append(out, g.excepts[f]...)
	}
	return out
}

// fieldType draws a type usable for a field / argument / return value.
func (g *gen) fieldType(depth int, later []*Struct) *Type {
	if g.cfg.ShadowNames && g.rng.Intn(3) == 0 {
		// typedef-heavy: prefer this file's own aliases
		if td, f := g.pickTypeDef(func(t *Type, tf *File) bool { return tf == g.file }); td != nil {
			g.feat("typedef_field")
			return T(g.ref(f, td.Name))
		}
	}
	for {
		if g.cfg.I8Type && g.rng.Intn(5) == 0 {
			g.feat("i8")
			return T("i8")
		}
		switch r := g.rng.Intn(20); {
		case r < 8:
			return T(BaseTypes[g.rng.Intn(len(BaseTypes))])
		case r < 10:
			if e, f := g.pickEnum(); e != nil {
				g.feat("enum_field")
				return T(g.ref(f, e.Name))
			}
		case r < 13:
			if s, f := g.pickStruct(later); s != nil {
				g.feat("struct_field")
				if s.Kind == KindUnion {
					g.feat("union_field")
				}
				return T(g.ref(f, s.Name))
			}
		case r < 15:
			if td, f := g.pickTypeDef(nil); td != nil {
				g.feat("typedef_field")
				if f != g.file {
					g.feat("typedef_from_include")
				}
				return T(g.ref(f, td.Name))
			}
		default:
			if depth >= g.cfg.MaxDepth {
				continue
			}
			g.feat(fmt.Sprintf("container_depth_%d", depth+1))
			switch g.rng.Intn(3) {
			case 0:
				return ListOf(g.fieldType(depth+1, later))
			case 1:
				g.feat("set")
				return SetOf(g.keyType())
			default:
				g.feat("map")
				return MapOf(g.keyType(), g.fieldType(depth+1, later))
			}
		}
	}
}

func (g *gen) genTypeDef() *TypeDef {
	td := &TypeDef{Comment: g.comment(), Ann: g.annotations()}
	// the aliased type only names things of this file: an alias that drags
	// another file's types along needs transitive includes at every use
	// (stress class TransitiveTypedefs)
	saved := g.visible
	if !g.cfg.TransitiveTypedefs {
		g.visible = nil
	}
	defer func() { g.visible = saved }()
	for tries := 0; tries < 10; tries++ {
		switch r := g.rng.Intn(10); {
		case r < 4:
			td.Type = T(BaseTypes[g.rng.Intn(len(BaseTypes))])
			g.feat("typedef_of_base")
		case r < 6:
			td.Type = g.containerOfSimple()
			g.feat("typedef_of_container")
		case r < 7:
			g.visible = saved
			prev, f := g.pickTypeDef(func(t *Type, tf *File) bool {
				if tf == g.file || g.cfg.TransitiveTypedefs {
					return true
				}
				u, _ := g.prog.underlyingWith(g.file, tf, t)
				return !hasCustom(u)
			})
			if !g.cfg.TransitiveTypedefs {
				g.visible = nil
			}
			if prev != nil {
				td.Type = T(g.ref(f, prev.Name))
				g.feat("typedef_chain")
				if f != g.file {
					g.feat("typedef_chain_via_include")
				}
			}
		case r < 8 && (g.cfg.TypedefOfEnum || g.cfg.MethodReturnsTypedefEnum):
			if e, f := g.pickEnum(); e != nil {
				td.Type = T(g.ref(f, e.Name))
				g.feat("typedef_of_enum")
			}
		case r < 9 && g.cfg.TypedefOfStruct:
			if s, f := g.pickStruct(nil); s != nil {
				td.Type = T(g.ref(f, s.Name))
				g.feat("typedef_of_struct")
			}
		}
		if td.Type != nil {
			break
		}
	}
	if td.Type == nil {
		return nil
	}
	if g.cfg.TransitiveTypedefs && hasQualified(td.Type) {
		g.feat("transitive_typedef")
	}
	td.Name = g.typeName()
	// the same unqualified name may mean something else in an included file
	// (each file is its own name space): reuse a visible file's typedef name
	// for a different aliased type now and then
	if len(saved) > 0 && (g.cfg.ShadowNames || g.rng.Intn(3) == 0) {
		f := saved[g.rng.Intn(len(saved))]
		if tds := g.typedefs[f]; len(tds) > 0 {
			other := tds[g.rng.Intn(len(tds))]
			if other.Type.String() != td.Type.String() && g.types.reserve(other.Name) {
				td.Name = other.Name
				g.feat("typedef_name_shadows_included_typedef")
				// a re-export: the local alias of the same name stands for the
				// included one ("typedef inc.Id Id")
				if g.cfg.ShadowNames && g.rng.Intn(3) == 0 {
					if u, _ := g.prog.underlyingWith(g.file, f, other.Type); !hasCustom(u) {
						td.Type = T(g.ref(f, other.Name))
						g.feat("typedef_reexports_included_typedef_of_the_same_name")
					}
				}
			}
		}
	}
	return td
}

// hasQualified reports whether t names a type of another file.
func hasQualified(t *Type) bool {
	if t == nil {
		return false
	}
	if t.IsContainer() {
		return hasQualified(t.Key) || hasQualified(t.Val)
	}
	return strings.Contains(t.Name, ".")
}

func hasCustom(t *Type) bool {
	if t == nil {
		return false
	}
	if t.IsContainer() {
		return hasCustom(t.Key) || hasCustom(t.Val)
	}
	return !IsBase(t.Name)
}

func (g *gen) containerOfSimple() *Type {
	elem := func() *Type {
		if e, f := g.pickEnum(); e != nil && g.rng.Intn(3) == 0 {
			return T(g.ref(f, e.Name))
		}
		return T(BaseTypes[g.rng.Intn(len(BaseTypes))])
	}
	switch g.rng.Intn(3) {
	case 0:
		return ListOf(elem())
	case 1:
		return SetOf(g.keyType())
	}
	return MapOf(g.keyType(), elem())
}

func (g *gen) fieldName(n *namer) string {
	if g.cfg.TargetKeywordNames && g.rng.Intn(3) == 0 {
		if w := g.stressName(n, targetKeywordNames); w != "" {
			g.feat("target_keyword_names")
			return w
		}
	}
	if g.cfg.GeneratorInternalNames && g.rng.Intn(3) == 0 {
		if w := g.stressName(n, generatorInternalNames); w != "" {
			g.feat("generator_internal_names")
			return w
		}
	}
	switch r := g.rng.Intn(10); {
	case r < 5:
		return n.make(0, 1+g.rng.Intn(2))
	case r < 8:
		g.feat("field_name_snake")
		return n.make(2, 1+g.rng.Intn(2))
	case r < 9:
		g.feat("field_name_upper_camel")
		return n.make(1, 1+g.rng.Intn(2))
	default:
		g.feat("field_name_allcaps")
		return n.make(3, 1)
	}
}

func (g *gen) fillStruct(s *Struct, later []*Struct) {
	s.Comment = g.comment()
	s.Ann = g.annotations()
	fn := newNamer(g.rng)
	n := g.rng.Intn(g.cfg.MaxFields + 1)
	if s.Kind == KindUnion && n == 0 {
		n = 1
	}
	if n == 0 {
		g.feat("empty_struct")
	}
	id := 0
	for i := 0; i < n; i++ {
		id += 1 + g.rng.Intn(3)
		if g.rng.Intn(12) == 0 {
			id += 100 + g.rng.Intn(1000)
			g.feat("sparse_field_ids")
		}
		f := &Field{Comment: g.comment(), ID: id, Name: g.fieldName(fn), Ann: g.annotations()}
		f.Type = g.fieldType(0, later)
		if s.Kind != KindUnion {
			switch r := g.rng.Intn(10); {
			case r < 5:
			case r < 8:
				f.Req = ReqOptional
				g.feat("optional_field")
			default:
				f.Req = ReqRequired
				g.feat("required_field")
			}
		}
		if g.cfg.Defaults && s.Kind != KindUnion && g.rng.Intn(5) == 0 {
			if v := g.literalFor(f.Type, 0); v != nil {
				f.Default = v
				g.feat("field_default")
				if f.Req == ReqOptional {
					g.feat("optional_field_with_default")
				}
			}
		}
		s.Fields = append(s.Fields, f)
	}
	if g.cfg.CaseTwinFields && len(s.Fields) > 0 && g.rng.Intn(2) == 0 {
		// foo / Foo in one struct: legal IDL (field names are case sensitive)
		for _, orig := range s.Fields {
			c := orig.Name[0]
			if c < 'a' || c > 'z' {
				continue
			}
			id++
			twin := &Field{ID: id, Name: strings.ToUpper(orig.Name[:1]) + orig.Name[1:], Type: T("i32")}
			if s.Kind != KindUnion {
				twin.Req = ReqOptional
			}
			s.Fields = append(s.Fields, twin)
			g.feat("case_twin_fields")
			break
		}
	}
	if g.cfg.SelfReference && s.Kind == KindStruct && g.rng.Intn(8) == 0 {
		id++
		s.Fields = append(s.Fields, &Field{ID: id, Name: fn.make(0, 1), Req: ReqOptional, Type: T(s.Name)})
		g.feat("self_reference")
	}
	switch s.Kind {
	case KindUnion:
		g.feat("union")
	case KindException:
		g.feat("exception")
	}
}

// literalFor returns a type-correct literal for t (nil when the type has no
// literal form we generate, e.g. structs).
func (g *gen) literalFor(t *Type, depth int) interface{} {
	u, uf := g.prog.underlyingWith(g.file, g.file, t)
	switch u.Name {
	case "bool":
		return g.rng.Intn(2) == 0
	case "byte":
		return int64(g.rng.Intn(256) - 128)
	case "i16":
		return int64(g.rng.Intn(65536) - 32768)
	case "i32":
		return int64(g.rng.Int31()) - int64(g.rng.Int31())
	case "i64":
		return g.rng.Int63() - g.rng.Int63()
	case "double":
		switch g.rng.Intn(8) {
		case 0: // needs more than six decimals
			g.feat("double_literal_small")
			return (g.rng.Float64() - 0.5) * 1e-7
		case 1: // seventeen significant digits
			g.feat("double_literal_long_mantissa")
			return g.rng.Float64()*2000 - 1000
		case 2: // large magnitude, still written without an exponent
			g.feat("double_literal_large")
			return float64(g.rng.Int63n(1<<53)) * 4096
		}
		return float64(g.rng.Intn(2000000)-1000000) / 64
	case "string":
		return []string{"", "plain", "with space", "quote\"inside", "apostrophe's", "unicode é中", "tab\there", "back\\slash", "line\nbreak", "ctl\x01x"}[g.rng.Intn(10)]
	case "binary":
		return nil
	case "list", "set":
		if depth > 0 {
			return nil
		}
		n := g.rng.Intn(4)
		seen := map[string]bool{}
		out := []interface{}{}
		for i := 0; i < n; i++ {
			v := g.literalFor(Qualify(u.Val, uf, g.file), depth+1)
			if v == nil {
				return nil
			}
			k := fmt.Sprint(v)
			if u.Name == "set" && seen[k] {
				continue
			}
			seen[k] = true
			out = append(out, v)
		}
		return out
	case "map":
		if depth > 0 {
			return nil
		}
		n := g.rng.Intn(3)
		seen := map[string]bool{}
		out := []KV{}
		for i := 0; i < n; i++ {
			k := g.literalFor(Qualify(u.Key, uf, g.file), depth+1)
			v := g.literalFor(Qualify(u.Val, uf, g.file), depth+1)
			if k == nil || v == nil {
				return nil
			}
			if seen[fmt.Sprint(k)] {
				continue
			}
			seen[fmt.Sprint(k)] = true
			if _, isString := k.(string); !isString {
				g.feat("const_map_non_string_key") // tag only: no PRNG draw, the program text is unchanged
			}
			out = append(out, KV{k, v})
		}
		return out
	}
	// enum?
	tmp := append([]*File{}, g.prog.Files...)
	g.prog.Files = append(g.prog.Files, g.file)
	r := g.prog.Lookup(uf, u.Name)
	g.prog.Files = tmp
	if r != nil && r.Enum != nil && len(r.Enum.Values) > 0 {
		v := r.Enum.Values[g.rng.Intn(len(r.Enum.Values))]
		g.feat("enum_literal")
		if r.File == g.file {
			return Ident(r.Enum.Name + "." + v.Name)
		}
		return Ident(r.File.Base + "." + r.Enum.Name + "." + v.Name)
	}
	return nil
}

func (g *gen) genConst() *Const {
	cn := g.types // constants share the file-level name space to stay collision free in every target
	for {
		var t *Type
		switch g.rng.Intn(5) {
		case 0, 1, 2:
			t = T([]string{"bool", "byte", "i16", "i32", "i64", "double", "string"}[g.rng.Intn(7)])
		case 3:
			t = g.containerOfSimple()
		default:
			if e, f := g.pickEnum(); e != nil {
				t = T(g.ref(f, e.Name))
			} else {
				continue
			}
		}
		v := g.literalFor(t, 0)
		if v == nil {
			continue
		}
		g.feat("const")
		if t.IsContainer() {
			g.feat("const_container")
		}
		return &Const{Comment: g.comment(), Name: cn.make(3, 1+g.rng.Intn(2)), Type: t, Value: v, Ann: g.annotations()}
	}
}

func (g *gen) genService() *Service {
	s := &Service{Comment: g.comment(), Name: g.types.make(1, 1+g.rng.Intn(2)), Ann: g.annotations()}
	if g.cfg.OddServiceNames && g.rng.Intn(2) == 0 {
		s.Name = g.typeName()
		g.feat("service_name_not_upper_camel")
	}
	// extends: a service declared earlier in this file or in an included file
	var cands []string
	for _, prev := range g.services[g.file] {
		cands = append(cands, prev.Name)
	}
	for _, f := range g.visible {
		for _, prev := range g.services[f] {
			cands = append(cands, f.Base+"."+prev.Name)
		}
	}
	if len(cands) > 0 && g.rng.Intn(2) == 0 {
		s.Extends = cands[g.rng.Intn(len(cands))]
		g.feat("extends")
		if strings.Contains(s.Extends, ".") {
			g.feat("extends_across_include")
		}
	}
	mn := newNamer(g.rng)
	// method names must not collide with inherited ones
	for _, inherited := range g.inheritedMethods(s.Extends) {
		mn.reserve(inherited)
	}
	n := 1 + g.rng.Intn(g.cfg.MaxMethods)
	for i := 0; i < n; i++ {
		m := &Method{Comment: g.comment(), Ann: g.annotations()}
		if g.rng.Intn(4) == 0 {
			m.Name = mn.make(2, 1+g.rng.Intn(2))
			g.feat("method_name_snake")
		} else if g.rng.Intn(5) == 0 {
			m.Name = mn.make(1, 1+g.rng.Intn(2))
			g.feat("method_name_upper")
		} else {
			m.Name = mn.make(0, 1+g.rng.Intn(2))
		}
		an := newNamer(g.rng)
		id := 0
		for j, na := 0, g.rng.Intn(g.cfg.MaxArgs+1); j < na; j++ {
			id += 1 + g.rng.Intn(2)
			a := &Field{ID: id, Name: g.fieldName(an), Type: g.fieldType(0, nil)}
			if g.cfg.ArgModifiers {
				switch g.rng.Intn(4) {
				case 0:
					a.Req = ReqOptional
					g.feat("optional_argument")
				case 1:
					a.Req = ReqRequired
					g.feat("required_argument")
				}
				if g.rng.Intn(2) == 0 {
					if lit := g.literalFor(a.Type, 0); lit != nil {
						a.Default = lit
						g.feat("argument_default")
					}
				}
			}
			m.Args = append(m.Args, a)
		}
		switch r := g.rng.Intn(10); {
		case r < 1:
			m.Oneway = true
			g.feat("oneway")
		case r < 3:
			g.feat("void_method")
		default:
			m.Ret = g.fieldType(0, nil)
		}
		if g.cfg.MethodReturnsTypedefEnum && !m.Oneway && g.rng.Intn(2) == 0 {
			if td, tf := g.pickTypeDef(g.underlyingIsEnum); td != nil {
				m.Ret = T(g.ref(tf, td.Name))
				g.feat("method_returns_typedef_enum")
			}
		}
		if !m.Oneway {
			excs := g.allExceptions()
			if len(excs) > 0 && g.rng.Intn(2) == 0 {
				g.feat("throws")
				k := 1 + g.rng.Intn(3)
				en := newNamer(g.rng)
				eid := 0
				usedEx := map[*Struct]bool{}
				for j := 0; j < k; j++ {
					eid += 1 + g.rng.Intn(2)
					ex := excs[g.rng.Intn(len(excs))]
					if usedEx[ex] {
						if !g.cfg.ThrowsSameTypeTwice {
							continue
						}
						g.feat("throws_same_type_twice")
					}
					usedEx[ex] = true
					ef := g.fileOfException(ex)
					m.Throws = append(m.Throws, &Field{ID: eid, Name: en.make(0, 1), Type: T(g.ref(ef, ex.Name))})
				}
				if m.Ret == nil {
					g.feat("void_method_throws")
				}
			}
		}
		s.Methods = append(s.Methods, m)
	}
	return s
}

// underlyingIsEnum reports whether t (written in tf) resolves to an enum.
func (g *gen) underlyingIsEnum(t *Type, tf *File) bool {
	u, uf := g.prog.underlyingWith(g.file, tf, t)
	if u.IsContainer() || IsBase(u.Name) {
		return false
	}
	saved := g.prog.Files
	g.prog.Files = append(append([]*File{}, saved...), g.file)
	r := g.prog.Lookup(uf, u.Name)
	g.prog.Files = saved
	return r != nil && r.Enum != nil
}

func (g *gen) fileOfException(ex *Struct) *File {
	for f, list := range g.excepts {
		for _, e := range list {
			if e == ex {
				return f
			}
		}
	}
	return g.file
}

func (g *gen) inheritedMethods(ext string) []string {
	var out []string
	for depth := 0; ext != "" && depth < 32; depth++ {
		f := g.file
		name := ext
		if i := strings.IndexByte(ext, '.'); i >= 0 {
			for _, pf := range g.prog.Files {
				if pf.Base == ext[:i] {
					f = pf
				}
			}
			name = ext[i+1:]
		}
		var found *Service
		for _, s := range g.services[f] {
			if s.Name == name {
				found = s
			}
		}
		if found == nil {
			return out
		}
		for _, m := range found.Methods {
			out = append(out, m.Name)
		}
		ext = found.Extends
		if ext != "" && !strings.Contains(ext, ".") && f != g.file {
			ext = f.Base + "." + ext
		}
	}
	return out
}

func (g *gen) genScope() *Scope {
	s := &Scope{Comment: g.comment(), Ann: g.annotations()}
	switch r := g.rng.Intn(10); {
	case r < 6:
		s.Name = g.types.make(1, 1+g.rng.Intn(2))
	case r < 8:
		s.Name = g.types.make(0, 1+g.rng.Intn(2))
		g.feat("scope_lowercase")
	case r < 9:
		s.Name = g.types.make(2, 2)
		g.feat("scope_snake")
	default:
		s.Name = g.types.make(3, 1)
		g.feat("scope_allcaps")
	}
	// prefix
	ntok := g.rng.Intn(5)
	var toks []string
	vn := newNamer(g.rng)
	for i := 0; i < ntok; i++ {
		if g.rng.Intn(3) == 0 {
			v := vn.make(0, 1)
			switch g.rng.Intn(4) {
			case 0:
				v = vn.make(2, 2) // snake_case
				g.feat("prefix_variable_snake")
			case 1:
				v = vn.make(0, 2) + fmt.Sprint(g.rng.Intn(10))
				g.feat("prefix_variable_digit")
			}
			if g.cfg.OneLetterPrefixVar && g.rng.Intn(3) == 0 {
				v = string(rune('a' + g.rng.Intn(26)))
				g.feat("one_letter_prefix_variable")
			}
			toks = append(toks, "{"+v+"}")
			g.feat("prefix_variable")
		} else {
			w := words[g.rng.Intn(len(words))]
			if g.rng.Intn(4) == 0 {
				w = strings.ToUpper(w[:1]) + w[1:] + "-" + fmt.Sprint(g.rng.Intn(10))
			}
			if g.cfg.ExoticPrefixChars && g.rng.Intn(3) == 0 {
				w += []string{"%", "'", "\"", "\\", "%s", "$x"}[g.rng.Intn(6)]
				g.feat("exotic_prefix_chars")
			}
			toks = append(toks, w)
		}
	}
	s.Prefix = strings.Join(toks, ".")
	if ntok > 0 {
		g.feat("scope_prefix")
	}
	on := newNamer(g.rng)
	for i, n := 0, 1+g.rng.Intn(3); i < n; i++ {
		op := &Operation{Comment: g.comment(), Ann: g.annotations()}
		if g.rng.Intn(3) == 0 {
			op.Name = on.make(0, 1+g.rng.Intn(2))
			g.feat("operation_lowercase")
		} else {
			op.Name = on.make(1, 1+g.rng.Intn(2))
		}
		if st, f := g.pickStruct(nil); st != nil && g.rng.Intn(4) != 0 {
			op.Type = T(g.ref(f, st.Name))
		} else {
			op.Type = g.fieldType(0, nil)
			g.feat("operation_non_struct_type")
		}
		s.Ops = append(s.Ops, op)
	}
	return s
}
