// Package idl is an independent, typed model of a multi-file Frugal/Thrift IDL
// program, a seeded generator of programs that are valid by construction, and
// a renderer with lexical knobs.  It never imports the compiler under test:
// it is the ground truth the compiler's outputs are compared with.
package idl

import (
	"fmt"
	"sort"
	"strings"
)

// BaseTypes are the Thrift base types Frugal knows.
var BaseTypes = []string{"bool", "byte", "i16", "i32", "i64", "double", "string", "binary"}

// IsBase reports whether name is a base type (i8 is accepted by the grammar as
// an identifier only, so it is not listed).
func IsBase(name string) bool {
	for _, b := range BaseTypes {
		if b == name {
			return true
		}
	}
	return false
}

// Type is a type expression.
type Type struct {
	Name string // base type, "list", "set", "map", or an identifier (optionally "include.Name")
	Key  *Type  // map
	Val  *Type  // map, list, set
}

// T builds a named type.
func T(name string) *Type { return &Type{Name: name} }

// ListOf / SetOf / MapOf build containers.
func ListOf(v *Type) *Type   { return &Type{Name: "list", Val: v} }
func SetOf(v *Type) *Type    { return &Type{Name: "set", Val: v} }
func MapOf(k, v *Type) *Type { return &Type{Name: "map", Key: k, Val: v} }

// IsContainer reports list/set/map.
func (t *Type) IsContainer() bool { return t.Name == "list" || t.Name == "set" || t.Name == "map" }

// String renders the type in canonical IDL syntax.
func (t *Type) String() string {
	switch t.Name {
	case "map":
		return "map<" + t.Key.String() + "," + t.Val.String() + ">"
	case "list":
		return "list<" + t.Val.String() + ">"
	case "set":
		return "set<" + t.Val.String() + ">"
	}
	return t.Name
}

// Clone deep-copies a type.
func (t *Type) Clone() *Type {
	if t == nil {
		return nil
	}
	return &Type{Name: t.Name, Key: t.Key.Clone(), Val: t.Val.Clone()}
}

// Annotation is (name = "value").
type Annotation struct{ Name, Value string }

// Ident is a constant value that names another constant or an enum value.
type Ident string

// KV is one entry of a constant map.
type KV struct{ Key, Value interface{} }

// Values are: int64, float64, string, bool, Ident, []interface{} (list), []KV (map).

// TypeDef is `typedef <type> <name>`.
type TypeDef struct {
	Comment []string
	Name    string
	Type    *Type
	Ann     []Annotation
}

// EnumValue is one enumerator; Explicit says whether "= n" is written.
type EnumValue struct {
	Comment  []string
	Name     string
	Value    int
	Explicit bool
	Ann      []Annotation
}

// Enum declaration.
type Enum struct {
	Comment []string
	Name    string
	Values  []*EnumValue
	Ann     []Annotation
}

// Const declaration.
type Const struct {
	Comment []string
	Name    string
	Type    *Type
	Value   interface{}
	Ann     []Annotation
}

// Requiredness of a field.
const (
	ReqDefault  = ""
	ReqRequired = "required"
	ReqOptional = "optional"
)

// Field of a struct-like, an argument or a thrown exception.
type Field struct {
	Comment []string
	ID      int
	Name    string
	Req     string
	Type    *Type
	Default interface{} // nil = none
	Ann     []Annotation
}

// Struct kinds.
const (
	KindStruct    = "struct"
	KindUnion     = "union"
	KindException = "exception"
)

// Struct is a struct, union or exception.
type Struct struct {
	Kind    string
	Comment []string
	Name    string
	Fields  []*Field
	Ann     []Annotation
}

// Method of a service.
type Method struct {
	Comment []string
	Name    string
	Oneway  bool
	Ret     *Type // nil = void
	Args    []*Field
	Throws  []*Field
	Ann     []Annotation
}

// Service declaration.
type Service struct {
	Comment []string
	Name    string
	Extends string // "" | "Name" | "include.Name"
	Methods []*Method
	Ann     []Annotation
}

// Operation of a scope.
type Operation struct {
	Comment []string
	Name    string
	Type    *Type
	Ann     []Annotation
}

// Scope declaration; Prefix is the raw prefix string ("" = none), e.g. "foo.{user}.bar".
type Scope struct {
	Comment []string
	Name    string
	Prefix  string
	Ops     []*Operation
	Ann     []Annotation
}

// PrefixVars lists the {variables} of the prefix in order.
func (s *Scope) PrefixVars() []string {
	var out []string
	p := s.Prefix
	for {
		i := strings.IndexByte(p, '{')
		if i < 0 {
			return out
		}
		j := strings.IndexByte(p[i:], '}')
		if j < 0 {
			return out
		}
		out = append(out, p[i+1:i+j])
		p = p[i+j+1:]
	}
}

// Include of another file.
type Include struct{ Path string }

// Namespace declaration.
type Namespace struct{ Lang, Value string }

// Decl is one top-level definition (exactly one pointer is set).
type Decl struct {
	TypeDef *TypeDef
	Enum    *Enum
	Const   *Const
	Struct  *Struct
	Service *Service
	Scope   *Scope
}

// Name of the declared thing.
func (d *Decl) Name() string {
	switch {
	case d.TypeDef != nil:
		return d.TypeDef.Name
	case d.Enum != nil:
		return d.Enum.Name
	case d.Const != nil:
		return d.Const.Name
	case d.Struct != nil:
		return d.Struct.Name
	case d.Service != nil:
		return d.Service.Name
	case d.Scope != nil:
		return d.Scope.Name
	}
	return ""
}

// File is one IDL file; Base is the file name without extension.
type File struct {
	Base       string
	Ext        string // ".frugal" or ".thrift"
	Includes   []*Include
	Namespaces []*Namespace
	Decls      []*Decl
}

// FileName is Base+Ext.
func (f *File) FileName() string { return f.Base + f.Ext }

// Program is a set of files; the last one is the root, every file includes
// only files that come before it.
type Program struct {
	Files    []*File
	Features map[string]bool
}

// Root returns the root file.
func (p *Program) Root() *File { return p.Files[len(p.Files)-1] }

// File returns the file with the given base name.
func (p *Program) File(base string) *File {
	for _, f := range p.Files {
		if f.Base == base {
			return f
		}
	}
	return nil
}

// FeatureList returns the sorted feature tags.
func (p *Program) FeatureList() []string {
	var out []string
	for k, v := range p.Features {
		if v {
			out = append(out, k)
		}
	}
	sort.Strings(out)
	return out
}

// Each* iterate over the declarations of a file in order.
func (f *File) Structs() []*Struct {
	var out []*Struct
	for _, d := range f.Decls {
		if d.Struct != nil {
			out = append(out, d.Struct)
		}
	}
	return out
}
func (f *File) Enums() []*Enum {
	var out []*Enum
	for _, d := range f.Decls {
		if d.Enum != nil {
			out = append(out, d.Enum)
		}
	}
	return out
}
func (f *File) TypeDefs() []*TypeDef {
	var out []*TypeDef
	for _, d := range f.Decls {
		if d.TypeDef != nil {
			out = append(out, d.TypeDef)
		}
	}
	return out
}
func (f *File) Consts() []*Const {
	var out []*Const
	for _, d := range f.Decls {
		if d.Const != nil {
			out = append(out, d.Const)
		}
	}
	return out
}
func (f *File) Services() []*Service {
	var out []*Service
	for _, d := range f.Decls {
		if d.Service != nil {
			out = append(out, d.Service)
		}
	}
	return out
}
func (f *File) Scopes() []*Scope {
	var out []*Scope
	for _, d := range f.Decls {
		if d.Scope != nil {
			out = append(out, d.Scope)
		}
	}
	return out
}

// Resolved is what a type name denotes.
type Resolved struct {
	File    *File
	Base    string // set for base types
	Enum    *Enum
	Struct  *Struct
	TypeDef *TypeDef
}

// Lookup resolves a (possibly include-qualified) name seen from file f; it
// does not follow typedefs.
func (p *Program) Lookup(f *File, name string) *Resolved {
	if IsBase(name) {
		return &Resolved{File: f, Base: name}
	}
	target := f
	local := name
	if i := strings.IndexByte(name, '.'); i >= 0 {
		target = p.File(name[:i])
		local = name[i+1:]
		if target == nil {
			return nil
		}
	}
	for _, d := range target.Decls {
		switch {
		case d.Enum != nil && d.Enum.Name == local:
			return &Resolved{File: target, Enum: d.Enum}
		case d.Struct != nil && d.Struct.Name == local:
			return &Resolved{File: target, Struct: d.Struct}
		case d.TypeDef != nil && d.TypeDef.Name == local:
			return &Resolved{File: target, TypeDef: d.TypeDef}
		}
	}
	return nil
}

// Underlying follows typedef chains (across includes) and returns the final
// type expression together with the file in whose name space it is written.
func (p *Program) Underlying(f *File, t *Type) (*Type, *File) {
	for depth := 0; depth < 64; depth++ {
		if t.IsContainer() || IsBase(t.Name) {
			return t, f
		}
		r := p.Lookup(f, t.Name)
		if r == nil || r.TypeDef == nil {
			return t, f
		}
		t, f = r.TypeDef.Type, r.File
	}
	return t, f
}

// Qualify rewrites a type written in file `from` so that it is valid when
// written in file `in` (adds or removes the include prefix on custom names).
func Qualify(t *Type, from, in *File) *Type {
	if t == nil {
		return nil
	}
	c := &Type{Name: t.Name, Key: Qualify(t.Key, from, in), Val: Qualify(t.Val, from, in)}
	if !t.IsContainer() && !IsBase(t.Name) && from != in && !strings.Contains(t.Name, ".") {
		c.Name = from.Base + "." + t.Name
	}
	return c
}

func (a Annotation) String() string { return fmt.Sprintf("%s=%q", a.Name, a.Value) }
