package idl

import (
	"fmt"
	"math/rand"
	"strings"
)

// Stress dimension "typedef of an enum declared in an INCLUDED file, used from
// ANOTHER file": the alias is the declared type of fields / arguments /
// constants / container elements and keys whose default names an enum value.
//
// The dimension is a post-processing step over a generated program with its
// own PRNG stream, so Generate's draws (and therefore every program any other
// check derives from a seed) do not move.  Feature tags set here:
//
//	typedef_of_included_enum                    alias declared in file A, used in file B
//	typedef_of_included_enum_in_new_file        A is a file added by this step
//	typedef_of_included_enum_chain              typedef of the typedef, also in A
//	typedef_of_included_enum_local_realias      typedef A.Alias Local in B
//	included_enum_alias_default_field           scalar field default naming an enum value
//	included_enum_alias_default_container       list / set / map default with alias elements / keys
//	included_enum_alias_default_argument        method argument default
//	included_enum_alias_constant                constant of alias type (scalar and container)
//	included_enum_alias_return                  method returning the alias
//	included_enum_alias_exception_field         exception field of alias type with default
//	included_enum_alias_union_member            union member of alias type

// IncludedEnumAliasFlag is the "+"-flag GenerateNamed understands on top of
// the flags of ConfigByName.
const IncludedEnumAliasFlag = "incenumalias"

// GenerateNamed regenerates the program of (seed, configuration name): the
// driver of a check and the harness it builds both call it.  Without the
// IncludedEnumAliasFlag it is exactly Generate(rand(seed), ConfigByName(name)).
func GenerateNamed(seed int64, name string) *Program {
	p := Generate(rand.New(rand.NewSource(seed)), ConfigByName(name))
	for _, flag := range strings.Split(name, "+") {
		if flag == IncludedEnumAliasFlag {
			AddIncludedEnumAliases(p, rand.New(rand.NewSource(seed^0x1ce0a11a5)))
		}
	}
	return p
}

// words of this step only: none is (a concatenation of) generator words, so a
// name built from them never collides with a generated one.
var aliasWords = []string{"shade", "tint", "hue", "tone", "gloss", "matte", "pastel", "sepia", "ochre", "teal"}

type aliasNamer struct {
	rng  *rand.Rand
	used map[string]bool
}

func (n *aliasNamer) make(style int) string {
	for try := 0; ; try++ {
		a, b := aliasWords[n.rng.Intn(len(aliasWords))], aliasWords[n.rng.Intn(len(aliasWords))]
		var s string
		switch style {
		case 0:
			s = a + strings.Title(b)
		case 1:
			s = strings.Title(a) + strings.Title(b)
		case 2:
			s = a + "_" + b
		default:
			s = strings.ToUpper(a + "_" + b)
		}
		if try > 20 {
			s += fmt.Sprint(try)
		}
		if k := norm(s); !n.used[k] && !denied[k] {
			n.used[k] = true
			return s
		}
	}
}

func fileLevelNames(p *Program, f *File) *aliasNamer {
	n := &aliasNamer{used: map[string]bool{}}
	for _, d := range f.Decls {
		n.used[norm(d.Name())] = true
	}
	for _, pf := range p.Files {
		n.used[norm(pf.Base)] = true
	}
	return n
}

// AddIncludedEnumAliases adds the dimension described above to p (in place).
func AddIncludedEnumAliases(p *Program, rng *rand.Rand) {
	feat := func(s string) { p.Features[s] = true }
	// (A, B) pairs already present: B includes A and A declares an enum with members
	type pair struct{ a, b *File }
	var pairs []pair
	for _, b := range p.Files {
		for _, inc := range b.Includes {
			for _, a := range p.Files {
				if a.FileName() != inc.Path {
					continue
				}
				for _, e := range a.Enums() {
					if len(e.Values) > 0 {
						pairs = append(pairs, pair{a, b})
						break
					}
				}
			}
		}
	}
	var A, B *File
	var enum *Enum
	if len(pairs) == 0 || rng.Intn(3) == 0 {
		// a new leaf file included by the root
		B = p.Root()
		fn := &aliasNamer{rng: rng, used: map[string]bool{}}
		for _, pf := range p.Files {
			fn.used[norm(pf.Base)] = true
			for _, d := range pf.Decls {
				fn.used[norm(d.Name())] = true
			}
		}
		A = &File{Base: fn.make(2), Ext: ".frugal"}
		an := fileLevelNames(p, A)
		an.rng = rng
		an.used[norm(A.Base)] = true
		enum = &Enum{Name: an.make(1)}
		vn := &aliasNamer{rng: rng, used: map[string]bool{}}
		next := rng.Intn(3)
		for i, n := 0, 2+rng.Intn(4); i < n; i++ {
			ev := &EnumValue{Name: vn.make(3), Value: next, Explicit: rng.Intn(2) == 0 || i == 0 && next != 0}
			if ev.Explicit {
				ev.Value = next + rng.Intn(4)
			}
			next = ev.Value + 1
			enum.Values = append(enum.Values, ev)
		}
		A.Decls = append(A.Decls, &Decl{Enum: enum})
		p.Files = append([]*File{A}, p.Files...)
		B.Includes = append(B.Includes, &Include{Path: A.FileName()})
		feat("includes")
		feat("typedef_of_included_enum_in_new_file")
	} else {
		pr := pairs[rng.Intn(len(pairs))]
		A, B = pr.a, pr.b
		var es []*Enum
		for _, e := range A.Enums() {
			if len(e.Values) > 0 {
				es = append(es, e)
			}
		}
		enum = es[rng.Intn(len(es))]
	}
	feat("typedef_of_included_enum")
	feat("cross_file_reference")

	// --- file A: the alias (and sometimes an alias of the alias) right after the enum,
	// plus a struct using it locally (control: the declaring file's own index)
	an := fileLevelNames(p, A)
	an.rng = rng
	alias := &TypeDef{Name: an.make(1), Type: T(enum.Name)}
	newA := []*Decl{{TypeDef: alias}}
	aliases := []*TypeDef{alias}
	if rng.Intn(2) == 0 {
		chain := &TypeDef{Name: an.make(1), Type: T(alias.Name)}
		newA = append(newA, &Decl{TypeDef: chain})
		aliases = append(aliases, chain)
		feat("typedef_of_included_enum_chain")
	}
	pickVal := func() *EnumValue { return enum.Values[rng.Intn(len(enum.Values))] }
	localLit := func() Ident { return Ident(enum.Name + "." + pickVal().Name) }
	ctl := &Struct{Kind: KindStruct, Name: an.make(1)}
	{
		fn := &aliasNamer{rng: rng, used: map[string]bool{}}
		ctl.Fields = append(ctl.Fields,
			&Field{ID: 1, Name: fn.make(0), Type: T(alias.Name), Default: localLit()},
			&Field{ID: 2, Name: fn.make(0), Req: ReqOptional, Type: T(aliases[len(aliases)-1].Name)},
			&Field{ID: 4, Name: fn.make(0), Type: ListOf(T(alias.Name)), Default: []interface{}{localLit()}},
		)
	}
	newA = append(newA, &Decl{Struct: ctl})
	var declsA []*Decl
	for _, d := range A.Decls {
		declsA = append(declsA, d)
		if d.Enum == enum {
			declsA = append(declsA, newA...)
		}
	}
	A.Decls = declsA

	// --- file B: users of the alias
	bn := fileLevelNames(p, B)
	bn.rng = rng
	lit := func() Ident { return Ident(A.Base + "." + enum.Name + "." + pickVal().Name) }
	var local *TypeDef
	if rng.Intn(3) == 0 {
		local = &TypeDef{Name: bn.make(1), Type: T(A.Base + "." + alias.Name)}
		feat("typedef_of_included_enum_local_realias")
	}
	// the declared type of one use: mostly the included alias itself
	useType := func() *Type {
		if local != nil && rng.Intn(4) == 0 {
			return T(local.Name)
		}
		return T(A.Base + "." + aliases[rng.Intn(len(aliases))].Name)
	}
	distinct := func(n int) []interface{} {
		seen := map[Ident]bool{}
		out := []interface{}{}
		for i := 0; i < n; i++ {
			l := lit()
			if !seen[l] {
				seen[l] = true
				out = append(out, l)
			}
		}
		return out
	}
	// containerField draws a container type with alias elements / keys and a default
	containerField := func() (*Type, interface{}) {
		switch rng.Intn(4) {
		case 0:
			l := []interface{}{}
			for i, n := 0, 1+rng.Intn(3); i < n; i++ {
				l = append(l, lit())
			}
			return ListOf(useType()), l
		case 1:
			return SetOf(useType()), distinct(1 + rng.Intn(3))
		case 2:
			var kv []KV
			for i, k := range distinct(1 + rng.Intn(2)) {
				kv = append(kv, KV{k, []string{"one", "two words", "three"}[i%3]})
			}
			return MapOf(useType(), T("string")), kv
		}
		var kv []KV
		for i, n := 0, 1+rng.Intn(2); i < n; i++ {
			kv = append(kv, KV{fmt.Sprintf("k%d", i), lit()})
		}
		return MapOf(T("string"), useType()), kv
	}

	card := &Struct{Kind: KindStruct, Name: bn.make(1)}
	{
		fn := &aliasNamer{rng: rng, used: map[string]bool{}}
		id := 0
		add := func(req string, t *Type, def interface{}) {
			id += 1 + rng.Intn(3)
			card.Fields = append(card.Fields, &Field{ID: id, Name: fn.make(rng.Intn(3)), Req: req, Type: t, Default: def})
		}
		add(ReqDefault, useType(), lit())
		feat("included_enum_alias_default_field")
		feat("field_default")
		if rng.Intn(3) > 0 {
			add(ReqOptional, useType(), lit())
			feat("optional_field_with_default")
		}
		if rng.Intn(3) > 0 {
			add(ReqRequired, useType(), lit())
		}
		if rng.Intn(2) == 0 {
			add(ReqOptional, useType(), nil)
		}
		if rng.Intn(2) == 0 {
			add(ReqDefault, useType(), nil)
		}
		for i, n := 0, 1+rng.Intn(3); i < n; i++ {
			t, d := containerField()
			add([]string{ReqDefault, ReqDefault, ReqOptional, ReqRequired}[rng.Intn(4)], t, d)
			feat("included_enum_alias_default_container")
		}
		if rng.Intn(2) == 0 {
			t, _ := containerField()
			add(ReqDefault, t, nil)
		}
	}
	newB := []*Decl{}
	if local != nil {
		newB = append(newB, &Decl{TypeDef: local})
	}
	newB = append(newB, &Decl{Struct: card})
	var exc *Struct
	if rng.Intn(2) == 0 {
		fn := &aliasNamer{rng: rng, used: map[string]bool{}}
		exc = &Struct{Kind: KindException, Name: bn.make(1), Fields: []*Field{
			{ID: 1, Name: fn.make(0), Type: T("string")},
			{ID: 2, Name: fn.make(0), Type: useType(), Default: lit()},
		}}
		newB = append(newB, &Decl{Struct: exc})
		feat("included_enum_alias_exception_field")
		feat("exception")
	}
	if rng.Intn(2) == 0 {
		fn := &aliasNamer{rng: rng, used: map[string]bool{}}
		t, _ := containerField()
		newB = append(newB, &Decl{Struct: &Struct{Kind: KindUnion, Name: bn.make(1), Fields: []*Field{
			{ID: 1, Name: fn.make(0), Type: useType()},
			{ID: 3, Name: fn.make(0), Type: t},
			{ID: 4, Name: fn.make(0), Type: T(card.Name)},
		}}})
		feat("included_enum_alias_union_member")
		feat("union")
	}
	// constants
	newB = append(newB, &Decl{Const: &Const{Name: bn.make(3), Type: useType(), Value: lit()}})
	for i, n := 0, rng.Intn(3); i < n; i++ {
		t, d := containerField()
		newB = append(newB, &Decl{Const: &Const{Name: bn.make(3), Type: t, Value: d}})
	}
	feat("included_enum_alias_constant")
	feat("const")
	// a service: arguments with defaults, alias return type
	svc := &Service{Name: bn.make(1)}
	{
		mn := &aliasNamer{rng: rng, used: map[string]bool{}}
		for i, n := 0, 1+rng.Intn(2); i < n; i++ {
			m := &Method{Name: mn.make(0)}
			an := &aliasNamer{rng: rng, used: map[string]bool{}}
			m.Args = append(m.Args, &Field{ID: 1, Name: an.make(0), Type: useType(), Default: lit()})
			feat("included_enum_alias_default_argument")
			feat("argument_default")
			if rng.Intn(2) == 0 {
				t, d := containerField()
				m.Args = append(m.Args, &Field{ID: 2, Name: an.make(0), Type: t, Default: d})
			}
			if rng.Intn(2) == 0 {
				m.Args = append(m.Args, &Field{ID: 4, Name: an.make(0), Type: T(card.Name)})
			}
			switch rng.Intn(3) {
			case 0:
				m.Ret = useType()
				feat("included_enum_alias_return")
			case 1:
				m.Ret = ListOf(useType())
				feat("included_enum_alias_return")
			}
			if exc != nil && rng.Intn(2) == 0 {
				m.Throws = append(m.Throws, &Field{ID: 1, Name: an.make(0), Type: T(exc.Name)})
				feat("throws")
			}
			svc.Methods = append(svc.Methods, m)
		}
	}
	// types and constants before the first service / scope of B, the service last
	at := len(B.Decls)
	for i, d := range B.Decls {
		if d.Service != nil || d.Scope != nil {
			at = i
			break
		}
	}
	decls := append([]*Decl{}, B.Decls[:at]...)
	decls = append(decls, newB...)
	decls = append(decls, B.Decls[at:]...)
	decls = append(decls, &Decl{Service: svc})
	B.Decls = decls
}
