package idl

import "strings"

// ConfigByName builds a Config from a "+"-separated list of stress-class
// names added to the core pool ("core", "core+typedef_of_enum", ...).  The
// driver of a check and the harness it builds both call it with the same name
// and seed and therefore regenerate the same program.
func ConfigByName(name string) Config {
	c := CoreConfig()
	for _, flag := range strings.Split(name, "+") {
		switch flag {
		case "typedef_of_enum":
			c.TypedefOfEnum = true
		case "typedef_of_struct":
			c.TypedefOfStruct = true
		case "transitive_typedefs":
			c.TransitiveTypedefs = true
		case "binary_keys":
			c.BinaryKeys = true
		case "forward_refs":
			c.ForwardRefs = true
		case "allcaps_snake_type_names":
			c.AllCapsSnakeTypeNames = true
		case "throws_same_type_twice":
			c.ThrowsSameTypeTwice = true
		case "odd_service_names":
			c.OddServiceNames = true
		case "negative_enum_values":
			c.NegativeEnumValues = true
		case "argmods":
			c.ArgModifiers = true
		case "shadow":
			c.ShadowNames = true
			c.MinFiles, c.MaxFiles = 2, 3
		case "i8":
			c.I8Type = true
		case "big":
			c.MaxFiles, c.MinFiles, c.MaxTypes, c.MaxServices, c.MaxScopes = 6, 3, 14, 3, 3
		}
	}
	return c
}
