package idl

import (
	"fmt"
	"math"
	"math/rand"
	"strings"
)

// AV is an abstract value of an IDL type: the model's own notion of a value,
// independent of any generated code.
type AV struct {
	Kind string // bool byte i16 i32 i64 double string binary enum struct list set map
	B    bool
	I    int64
	D    float64
	S    []byte

	St     *Struct // struct / union / exception
	StFile *File
	Fields map[int]*AV // set fields by id

	// LeftAtDefault marks the value of a non-optional field that has a
	// declared default and that a harness must not assign: the value is the
	// declared default and the emitted constructor has to have put it there.
	LeftAtDefault bool

	ElemType *Type // list/set element type, map value type (written in ElemFile)
	KeyType  *Type
	ElemFile *File
	Elems    []*AV
	Keys     []*AV
	Vals     []*AV
}

// LeaveDefaults makes GenValue leave some non-optional fields with a declared
// default untouched (see AV.LeftAtDefault).  Only harnesses that build every
// struct through its emitted constructor may set it.
var LeaveDefaults bool

// LeftAtDefaultCount counts the fields GenValue left at their default.
var LeftAtDefaultCount int

// ResolveKind returns the kind of a type seen from file f, plus the resolved
// type expression and the file in whose name space it is written.
func (p *Program) ResolveKind(f *File, t *Type) (kind string, u *Type, uf *File, r *Resolved) {
	u, uf = p.Underlying(f, t)
	if u.IsContainer() {
		return u.Name, u, uf, nil
	}
	if u.Name == "i8" {
		// Thrift's other spelling of byte: same values, same wire type
		return "byte", u, uf, nil
	}
	if IsBase(u.Name) {
		return u.Name, u, uf, nil
	}
	r = p.Lookup(uf, u.Name)
	if r == nil {
		return "unknown", u, uf, nil
	}
	if r.Enum != nil {
		return "enum", u, uf, r
	}
	if r.Struct != nil {
		return "struct", u, uf, r
	}
	return "unknown", u, uf, r
}

var edgeInts = map[string][]int64{
	"byte": {0, 1, -1, 127, -128},
	"i16":  {0, 1, -1, 32767, -32768, 255, 256},
	"i32":  {0, 1, -1, math.MaxInt32, math.MinInt32, 65535, 65536},
	"i64":  {0, 1, -1, math.MaxInt64, math.MinInt64, 1 << 32, -(1 << 32), 1<<53 + 1},
}

var sampleStrings = []string{"", "a", "plain ascii", "tab\tnewline\n", "quote\"backslash\\", "é", "中文字", "🙂 emoji", "\u0000nul", "ünïcödé and a longer piece of text that exceeds a few machine words", "{\"json\": [1,2]}", "<xml attr='1'/>", " leading and trailing "}

// GenValue draws a value of type t (written in file f).
func (p *Program) GenValue(rng *rand.Rand, f *File, t *Type, depth int) *AV {
	kind, u, uf, r := p.ResolveKind(f, t)
	av := &AV{Kind: kind}
	switch kind {
	case "bool":
		av.B = rng.Intn(2) == 0
	case "byte", "i16", "i32", "i64":
		e := edgeInts[kind]
		if rng.Intn(3) == 0 {
			av.I = e[rng.Intn(len(e))]
		} else {
			bits := map[string]uint{"byte": 8, "i16": 16, "i32": 32, "i64": 64}[kind]
			x := rng.Uint64()
			av.I = int64(x) >> (64 - bits)
		}
	case "double":
		switch rng.Intn(8) {
		case 0:
			av.D = 0
		case 1:
			av.D = math.Copysign(0, -1)
		case 2:
			av.D = math.Inf(1 - 2*rng.Intn(2))
		case 3:
			av.D = math.NaN()
		case 4:
			av.D = math.SmallestNonzeroFloat64
		case 5:
			av.D = math.MaxFloat64
		default:
			av.D = (rng.Float64() - 0.5) * math.Pow(10, float64(rng.Intn(40)-20))
		}
	case "string":
		if rng.Intn(3) == 0 {
			av.S = []byte(sampleStrings[rng.Intn(len(sampleStrings))])
		} else {
			n := rng.Intn(24)
			var b strings.Builder
			for i := 0; i < n; i++ {
				b.WriteRune([]rune("abcXYZ019 _-éß中🙂\"\\\n")[rng.Intn(19)])
			}
			av.S = []byte(b.String())
		}
	case "binary":
		n := []int{0, 1, 2, 3, 7, 16, 33}[rng.Intn(7)]
		av.S = make([]byte, n)
		for i := range av.S {
			av.S[i] = byte(rng.Intn(256))
		}
	case "enum":
		vals := r.Enum.Values
		if len(vals) > 0 && rng.Intn(10) != 0 {
			av.I = int64(vals[rng.Intn(len(vals))].Value)
		} else {
			av.I = int64(int32(rng.Uint32())) // any value that fits the i32 wire type
		}
	case "struct":
		av.St, av.StFile = r.Struct, r.File
		av.Fields = map[int]*AV{}
		if r.Struct.Kind == KindUnion {
			if len(r.Struct.Fields) > 0 {
				fl := p.pickTerminating(rng, r.File, r.Struct, depth)
				av.Fields[fl.ID] = p.GenValue(rng, r.File, fl.Type, depth+1)
			}
			break
		}
		for _, fl := range r.Struct.Fields {
			if fl.Req == ReqOptional {
				if depth >= 3 || rng.Intn(2) == 0 {
					continue
				}
				v := p.GenValue(rng, r.File, fl.Type, depth+1)
				if fl.Default != nil {
					// emitted code defines "set" for an optional field with a default as
					// "differs from the default": keep away from the default value
					if d := p.AVFromLiteral(r.File, fl.Type, fl.Default); d != nil && d.Canon() == v.Canon() {
						continue
					}
				}
				av.Fields[fl.ID] = v
				continue
			}
			if LeaveDefaults && fl.Default != nil && rng.Intn(3) == 0 {
				if d := p.AVFromLiteral(r.File, fl.Type, fl.Default); d != nil {
					d.LeftAtDefault = true
					LeftAtDefaultCount++
					av.Fields[fl.ID] = d
					continue
				}
			}
			av.Fields[fl.ID] = p.GenValue(rng, r.File, fl.Type, depth+1)
		}
	case "list", "set", "map":
		n := rng.Intn(4)
		if depth >= 3 {
			n = rng.Intn(2)
		}
		if rng.Intn(12) == 0 && depth < 2 {
			n = 5 + rng.Intn(12)
		}
		av.ElemType, av.KeyType, av.ElemFile = u.Val, u.Key, uf
		seen := map[string]bool{}
		for i := 0; i < n; i++ {
			if kind == "map" {
				k := p.GenValue(rng, uf, u.Key, depth+1)
				if isNaN(k) || seen[keyCanon(k)] {
					continue
				}
				seen[keyCanon(k)] = true
				av.Keys = append(av.Keys, k)
				av.Vals = append(av.Vals, p.GenValue(rng, uf, u.Val, depth+1))
				continue
			}
			e := p.GenValue(rng, uf, u.Val, depth+1)
			if kind == "set" {
				if isNaN(e) || seen[keyCanon(e)] {
					continue
				}
				seen[keyCanon(e)] = true
			}
			av.Elems = append(av.Elems, e)
		}
	}
	return av
}

// keyCanon identifies a set element / map key the way every target's hash
// containers do: +0 and -0 are one key.
func keyCanon(a *AV) string {
	if a.Kind == "double" && a.D == 0 {
		return "double:zero"
	}
	return a.Canon()
}

func isNaN(a *AV) bool { return a.Kind == "double" && math.IsNaN(a.D) }

// pickTerminating chooses a union member; deep down it prefers members that
// do not recurse into further structs.
func (p *Program) pickTerminating(rng *rand.Rand, f *File, s *Struct, depth int) *Field {
	if depth >= 3 {
		for _, fl := range s.Fields {
			if k, _, _, _ := p.ResolveKind(f, fl.Type); k != "struct" && k != "list" && k != "map" && k != "set" {
				return fl
			}
		}
	}
	return s.Fields[rng.Intn(len(s.Fields))]
}

// Canon renders an abstract value canonically (sets and maps order-free,
// doubles bitwise).
func (a *AV) Canon() string {
	switch a.Kind {
	case "bool":
		return fmt.Sprintf("bool:%v", a.B)
	case "byte", "i16", "i32", "i64", "enum":
		return fmt.Sprintf("%s:%d", a.Kind, a.I)
	case "double":
		return fmt.Sprintf("double:%016x", math.Float64bits(a.D))
	case "string", "binary":
		return fmt.Sprintf("%s:%x", a.Kind, a.S)
	case "struct":
		var parts []string
		for _, fl := range a.St.Fields {
			if v, ok := a.Fields[fl.ID]; ok {
				parts = append(parts, fmt.Sprintf("%d=%s", fl.ID, v.Canon()))
			}
		}
		return "struct{" + strings.Join(parts, ",") + "}"
	case "list":
		var parts []string
		for _, e := range a.Elems {
			parts = append(parts, e.Canon())
		}
		return "list[" + strings.Join(parts, ",") + "]"
	case "set":
		var parts []string
		for _, e := range a.Elems {
			parts = append(parts, e.Canon())
		}
		sortStrings(parts)
		return "set[" + strings.Join(parts, ",") + "]"
	case "map":
		var parts []string
		for i := range a.Keys {
			parts = append(parts, a.Keys[i].Canon()+"->"+a.Vals[i].Canon())
		}
		sortStrings(parts)
		return "map[" + strings.Join(parts, ",") + "]"
	}
	return "?"
}

func sortStrings(s []string) {
	for i := 1; i < len(s); i++ {
		for j := i; j > 0 && s[j] < s[j-1]; j-- {
			s[j], s[j-1] = s[j-1], s[j]
		}
	}
}

// AVFromLiteral converts an IDL constant literal of type t into a value
// (nil when the literal form is not one the generator produces).
func (p *Program) AVFromLiteral(f *File, t *Type, lit interface{}) *AV {
	kind, u, uf, r := p.ResolveKind(f, t)
	av := &AV{Kind: kind}
	switch kind {
	case "bool":
		b, ok := lit.(bool)
		if !ok {
			return nil
		}
		av.B = b
	case "byte", "i16", "i32", "i64":
		i, ok := lit.(int64)
		if !ok {
			return nil
		}
		av.I = i
	case "double":
		switch x := lit.(type) {
		case float64:
			av.D = x
		case int64:
			av.D = float64(x)
		default:
			return nil
		}
	case "string", "binary":
		s, ok := lit.(string)
		if !ok {
			return nil
		}
		av.S = []byte(s)
	case "enum":
		switch x := lit.(type) {
		case int64:
			av.I = x
		case Ident:
			parts := strings.Split(string(x), ".")
			name := parts[len(parts)-1]
			found := false
			for _, v := range r.Enum.Values {
				if v.Name == name {
					av.I, found = int64(v.Value), true
				}
			}
			if !found {
				return nil
			}
		default:
			return nil
		}
	case "list", "set":
		l, ok := lit.([]interface{})
		if !ok {
			return nil
		}
		av.ElemType, av.ElemFile = u.Val, uf
		for _, e := range l {
			x := p.AVFromLiteral(uf, u.Val, e)
			if x == nil {
				return nil
			}
			av.Elems = append(av.Elems, x)
		}
	case "map":
		l, ok := lit.([]KV)
		if !ok {
			return nil
		}
		av.ElemType, av.KeyType, av.ElemFile = u.Val, u.Key, uf
		for _, e := range l {
			k := p.AVFromLiteral(uf, u.Key, e.Key)
			v := p.AVFromLiteral(uf, u.Val, e.Value)
			if k == nil || v == nil {
				return nil
			}
			av.Keys = append(av.Keys, k)
			av.Vals = append(av.Vals, v)
		}
	default:
		return nil
	}
	return av
}

// ArgsStruct synthesises the <method>_args struct of a method.
func ArgsStruct(m *Method) *Struct {
	return &Struct{Kind: KindStruct, Name: m.Name + "_args", Fields: m.Args}
}

// ResultStruct synthesises the <method>_result struct (nil for oneway): field
// 0 "success" (absent for void) and one optional field per declared exception.
func ResultStruct(m *Method) *Struct {
	if m.Oneway {
		return nil
	}
	s := &Struct{Kind: KindStruct, Name: m.Name + "_result"}
	if m.Ret != nil {
		s.Fields = append(s.Fields, &Field{ID: 0, Name: "success", Req: ReqOptional, Type: m.Ret})
	}
	for _, e := range m.Throws {
		s.Fields = append(s.Fields, &Field{ID: e.ID, Name: e.Name, Req: ReqOptional, Type: e.Type})
	}
	return s
}
