package idl

import (
	"sort"
	"strings"
)

// Canon returns the canonical description of one file: plain maps, slices and
// strings, with Thrift's rules applied (union fields optional, thrown
// exceptions optional, unspecified requiredness "default", implicit enum
// numbering resolved).  A dump of the compiler's own parse tree in the same
// shape must be deeply equal to it.  Lists keep declaration order, grouped by
// kind, except scopes, which the parser sorts by name.
func Canon(f *File) map[string]interface{} {
	out := map[string]interface{}{}
	var incs []interface{}
	for _, i := range f.Includes {
		base := i.Path
		if k := strings.LastIndex(base, "/"); k >= 0 {
			base = base[k+1:]
		}
		if k := strings.LastIndex(base, "."); k > 0 {
			base = base[:k]
		}
		incs = append(incs, map[string]interface{}{"name": base, "value": i.Path})
	}
	out["includes"] = list(incs)
	var nss []interface{}
	for _, n := range f.Namespaces {
		nss = append(nss, map[string]interface{}{"scope": n.Lang, "value": n.Value})
	}
	out["namespaces"] = list(nss)
	var tds, enums, consts, structs, unions, excs, svcs []interface{}
	type sc struct {
		name string
		v    interface{}
	}
	var scopes []sc
	for _, d := range f.Decls {
		switch {
		case d.TypeDef != nil:
			t := d.TypeDef
			tds = append(tds, map[string]interface{}{"name": t.Name, "type": t.Type.String(), "comment": comment(t.Comment), "annotations": CanonAnn(t.Ann)})
		case d.Enum != nil:
			e := d.Enum
			var vs []interface{}
			for _, v := range e.Values {
				vs = append(vs, map[string]interface{}{"name": v.Name, "value": v.Value, "comment": comment(v.Comment), "annotations": CanonAnn(v.Ann)})
			}
			enums = append(enums, map[string]interface{}{"name": e.Name, "values": list(vs), "comment": comment(e.Comment), "annotations": CanonAnn(e.Ann)})
		case d.Const != nil:
			c := d.Const
			consts = append(consts, map[string]interface{}{"name": c.Name, "type": c.Type.String(), "value": CanonValue(c.Value), "comment": comment(c.Comment), "annotations": CanonAnn(c.Ann)})
		case d.Struct != nil:
			s := d.Struct
			m := map[string]interface{}{"name": s.Name, "kind": s.Kind, "fields": CanonFields(s.Fields, s.Kind == KindUnion), "comment": comment(s.Comment), "annotations": CanonAnn(s.Ann)}
			switch s.Kind {
			case KindUnion:
				unions = append(unions, m)
			case KindException:
				excs = append(excs, m)
			default:
				structs = append(structs, m)
			}
		case d.Service != nil:
			s := d.Service
			var ms []interface{}
			for _, m := range s.Methods {
				ret := "void"
				if m.Ret != nil {
					ret = m.Ret.String()
				}
				ms = append(ms, map[string]interface{}{"name": m.Name, "oneway": m.Oneway, "return": ret,
					"arguments": CanonFields(m.Args, false), "exceptions": CanonFields(m.Throws, true),
					"comment": comment(m.Comment), "annotations": CanonAnn(m.Ann)})
			}
			svcs = append(svcs, map[string]interface{}{"name": s.Name, "extends": s.Extends, "methods": list(ms), "comment": comment(s.Comment), "annotations": CanonAnn(s.Ann)})
		case d.Scope != nil:
			s := d.Scope
			var ops []interface{}
			for _, o := range s.Ops {
				ops = append(ops, map[string]interface{}{"name": o.Name, "type": o.Type.String(), "comment": comment(o.Comment), "annotations": CanonAnn(o.Ann)})
			}
			vars := []interface{}{}
			for _, v := range s.PrefixVars() {
				vars = append(vars, v)
			}
			scopes = append(scopes, sc{s.Name, map[string]interface{}{"name": s.Name, "prefix": s.Prefix, "variables": vars, "operations": list(ops), "comment": comment(s.Comment), "annotations": CanonAnn(s.Ann)}})
		}
	}
	sort.SliceStable(scopes, func(i, j int) bool { return scopes[i].name < scopes[j].name })
	var scl []interface{}
	for _, s := range scopes {
		scl = append(scl, s.v)
	}
	out["typedefs"], out["enums"], out["constants"] = list(tds), list(enums), list(consts)
	out["structs"], out["unions"], out["exceptions"] = list(structs), list(unions), list(excs)
	out["services"], out["scopes"] = list(svcs), list(scl)
	return out
}

func list(l []interface{}) []interface{} {
	if l == nil {
		return []interface{}{}
	}
	return l
}

func comment(c []string) []interface{} {
	out := []interface{}{}
	for _, l := range c {
		out = append(out, l)
	}
	return out
}

// CanonAnn canonicalises annotations (order kept).
func CanonAnn(a []Annotation) []interface{} {
	out := []interface{}{}
	for _, x := range a {
		out = append(out, map[string]interface{}{"name": x.Name, "value": x.Value})
	}
	return out
}

// CanonFields canonicalises a field list; forceOptional applies Thrift's rule
// for union members and thrown exceptions.
func CanonFields(fs []*Field, forceOptional bool) []interface{} {
	out := []interface{}{}
	for _, f := range fs {
		req := "default"
		switch f.Req {
		case ReqRequired:
			req = "required"
		case ReqOptional:
			req = "optional"
		}
		if forceOptional {
			req = "optional"
		}
		var def interface{}
		if f.Default != nil {
			def = CanonValue(f.Default)
		}
		out = append(out, map[string]interface{}{"id": f.ID, "name": f.Name, "requiredness": req, "type": f.Type.String(), "default": def, "comment": comment(f.Comment), "annotations": CanonAnn(f.Ann)})
	}
	return out
}

// CanonValue canonicalises a constant value: ints as int64, doubles as
// float64, identifiers as {"identifier": s}, maps as a list of [k, v] pairs.
func CanonValue(v interface{}) interface{} {
	switch x := v.(type) {
	case int:
		return int64(x)
	case Ident:
		return map[string]interface{}{"identifier": string(x)}
	case []interface{}:
		out := []interface{}{}
		for _, e := range x {
			out = append(out, CanonValue(e))
		}
		return out
	case []KV:
		out := []interface{}{}
		for _, e := range x {
			out = append(out, []interface{}{CanonValue(e.Key), CanonValue(e.Value)})
		}
		return map[string]interface{}{"map": out}
	}
	return v
}
